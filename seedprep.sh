#!/bin/bash
# usage: seedprep.sh <prop-id> [suffix]  -> scratch worktree /tmp/wt/<id><suffix> (no verif files) + /tmp/wt/<id><suffix>.prop.txt
set -e
id=$1; n=$1$2
/verif/mkwt.sh $n >/dev/null
python3 - "$id" "$n" <<'PY'
import json,sys
id,n=sys.argv[1:3]
for l in open('/verif/properties.jsonl'):
    p=json.loads(l)
    if p['id']==id:
        t="Property %s: %s\n\nStatement: %s\n\nQuantified over: %s\n\nWhy tests cannot settle it: %s\n\nAnchors (code the property lives in): %s\n"%(p['id'],p['title'],p['statement'],json.dumps(p['quantifier']),p['why_tests_cant'],json.dumps(p['anchors'],indent=1))
        open('/tmp/wt/%s.prop.txt'%n,'w').write(t)
PY
echo /tmp/wt/$n
