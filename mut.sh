#!/bin/bash
# usage: mut.sh <file-in-repo> <python-replace-old> <python-replace-new> <prop>...
f=$1; old=$2; new=$3; shift 3
cd /repo
python3 - "$f" "$old" "$new" <<'PY'
import sys
p,old,new=sys.argv[1:4]
s=open(p).read()
assert old in s, "pattern not found"
open(p,'w').write(s.replace(old,new,1))
PY
[ $? -eq 0 ] || exit 1
go build ./$(dirname $f)/ || { git checkout -- $f; echo BUILD-FAIL; exit 1; }
for p in "$@"; do (cd /verif && ./check $p -noev 2>&1 | grep -c "^VIOLATION" | sed "s/^/$p violations: /"; ./check $p -noev 2>&1 | grep "^VIOLATION" | head -3 | cut -c1-220); done
git checkout -- $f
