export GOTOOLCHAIN=local
export PATH=/opt/veriftools/go1.26.8/bin:$PATH
export GOFLAGS=-mod=mod GOPROXY=off GOSUMDB=off
