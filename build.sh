#!/bin/sh
# builds the VC generator offline
set -e
. /verif/env.sh
cd /verif/gowp
mkdir -p /verif/bin
go build -o /verif/bin/gowp .
