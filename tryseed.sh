#!/bin/bash
# usage: tryseed.sh <patch> <prop>...   applies the patch to /repo, runs the checks, reverses the patch
p=$1; shift
cd /repo
if [ -n "$(git status --porcelain --untracked-files=no)" ]; then echo "REFUSING: /repo has uncommitted changes to tracked files"; exit 2; fi
git apply "$p" || { echo "patch does not apply"; exit 2; }
for id in "$@"; do (cd /verif && ./check $id -noev 2>&1 | grep "^VIOLATION\|^property=" | cut -c1-260); done
git apply -R "$p"
git status --porcelain --untracked-files=no
