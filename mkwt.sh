#!/bin/bash
# creates a scratch worktree of /repo HEAD without the verif contract files: /tmp/wt/<name>
set -e
n=$1
mkdir -p /tmp/wt
git -C /repo worktree add --detach /tmp/wt/$n HEAD >/dev/null 2>&1
cd /tmp/wt/$n
find . -name 'zz_verif_contracts*.go' -delete
git add -A >/dev/null; git -c user.name=builder -c user.email=b@x commit -qm "scratch base (no verification files)" >/dev/null
echo /tmp/wt/$n
