#!/bin/bash
# usage: confirmseed.sh <worktree-name>   (in /tmp/wt/<name>): confirms demo fails with patch, passes without, existing tests pass with patch
wt=/tmp/wt/$1
cd $wt || exit 2
export GOFLAGS=-mod=mod GOPROXY=off
demo=$(python3 -c "import json;print(json.load(open('seed_meta.json'))['demo_test'])")
cmd=$(python3 -c "import json;print(json.load(open('seed_meta.json'))['demo_run_cmd'])")
pkg=./$(dirname $demo)/
echo "== status"; git status --porcelain | head
echo "== patch matches working tree diff?"; git diff -- . ':!*zz_seed_demo_test.go' | diff -q - seed_patch.diff && echo same
echo "== demo WITH patch (expect FAIL): $cmd"; $cmd 2>&1 | tail -3
git apply -R seed_patch.diff || { echo "cannot revert"; exit 1; }
echo "== demo WITHOUT patch (expect ok)"; $cmd 2>&1 | tail -2
git apply seed_patch.diff
echo "== package tests WITH patch, demo skipped (expect ok)"; go test -count=1 -skip 'TestSeedDemo' $pkg 2>&1 | tail -3
