#!/bin/sh
# warms the Go build cache (export data for dependencies) so checks load in seconds
. /verif/env.sh
cd /verif
pk=$(python3 -c "import json;d=json.load(open('/verif/specs/props.json'));print(' '.join(sorted({p for v in d.values() for p in v['packages']})))")
/verif/bin/gowp warm $pk
