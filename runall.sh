#!/bin/bash
# runs every claimed quick check on the current tree (regenerates the evidence files)
cd /verif
for id in $(python3 -c "import json;print(' '.join(sorted(json.load(open('specs/claims.json')))))"); do ./check $id 2>&1 | grep "^VIOLATION\|^KNOWN\|^property=" | cut -c1-200; done
