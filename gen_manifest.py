#!/usr/bin/env python3
# Regenerates MANIFEST.json from specs/claims.json (claimed checks) and specs/not_applicable.json.
import json
claims=json.load(open('/verif/specs/claims.json'))
na=json.load(open('/verif/specs/not_applicable.json'))
base=json.load(open('/root/.vp/BASELINE.json'))
import subprocess
na={k:v for k,v in na.items() if k not in claims}
json.dump(na,open('/verif/specs/not_applicable.json','w'),indent=1)
# hook commits = every commit that touches a contract file (they touch nothing else; this also picks up
# contract edits that were committed by the round driver under its own message)
hooks=subprocess.run(['git','-C','/repo','log','--reverse','--format=%H','--','*zz_verif_contracts.go'],capture_output=True,text=True).stdout.split()
if hooks:
    json.dump(hooks,open('/verif/specs/hook_commits.json','w'))
checks=[]
for pid in sorted(claims):
    c=claims[pid]
    checks.append({
      "property_id": pid,
      "quick_cmd": f"./check {pid}",
      "thorough_cmd": f"./check {pid} --tier thorough",
      "evidence_file": f"/verif/evidence/{pid}.json",
      "replay_cmd_template": "./replay {path}",
      "engine": "gowp",
      "level_claimed": {"category": c.get("category","proof"), "text": c["text"], "design_ref": f"DESIGN.md §5 {pid}"},
      "level_note": c["note"],
      "technique": "contract-based deductive verification: VCs generated from go/ssa of the real code, contracts in //@ comment files, discharged by z3/cvc5"
    })
m={
 "version": 1,
 "setup_cmd": "/verif/build.sh && /verif/warm.sh",
 "hooks": {
  "guard": "verif",
  "enable": "go build -tags verif (comment-only contract files zz_verif_contracts.go; no executable hook)",
  "baseline_off_cmd": base["cmd"],
  "source_commits": json.load(open('/verif/specs/hook_commits.json')),
  "add_only": True
 },
 "engines": [{"name":"gowp","path":"/verif/gowp","serves_properties":sorted(claims),"kind_free_text":"self-written VC generator: symbolic path execution over go/ssa of /repo with contracts from //@ comment files (build tag verif); obligations discharged by z3 4.8.12 / z3 5.1.0 / cvc5 1.0"}],
 "checks": checks,
 "not_applicable": [{"property_id":k,"reason":v} for k,v in sorted(na.items())],
 "notes": "All checks rebuild their VCs from /repo's working tree on every run. Known findings: /verif/known_findings.json."
}
json.dump(m,open('/verif/MANIFEST.json','w'),indent=1)
print(len(checks),"checks,",len(na),"not applicable")
