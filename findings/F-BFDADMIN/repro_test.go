package bfd

import "testing"

// Before the fix Session.Run fed event(remoteState) to the state machine. For a received AdminDown
// that is eventAdminDown, the *local* administrative event: the session entered AdminDown and no
// received state or timer expiry ever left it (only eventAdminUp does, which Run never raises).
// RFC 5880 6.8.6: a received AdminDown moves a session that is not Down to Down.
func TestVerifReproReceivedAdminDownWedges(t *testing.T) {
	for _, local := range []state{stateDown, stateInit, stateUp} {
		got := transition(local, event(stateAdminDown)) // what Run did with a received AdminDown
		if got != stateAdminDown {
			t.Fatalf("unexpected: %v", got)
		}
		for _, ev := range []event{eventDown, eventInit, eventUp, eventTimer, eventAdminDown} {
			if transition(got, ev) != stateAdminDown {
				t.Fatalf("AdminDown left on %v", ev)
			}
		}
	}
	t.Log("old mapping: received AdminDown parks the session in AdminDown forever")
}
