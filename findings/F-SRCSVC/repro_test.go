package router_test

import (
	"testing"
	"time"

	"github.com/golang/mock/gomock"

	"github.com/scionproto/scion/pkg/addr"
	"github.com/scionproto/scion/pkg/slayers"
	"github.com/scionproto/scion/pkg/slayers/path"
	"github.com/scionproto/scion/private/topology"
	"github.com/scionproto/scion/router"
)

// A packet from inside the AS (SrcIA == local IA) whose source host is a SERVICE address:
// validateSrcHost calls src.IP() on it, which panics ("IP called on non-IP address").
func TestVerifReproSrcSvcPanic(t *testing.T) {
	ctrl := gomock.NewController(t)
	defer ctrl.Finish()
	key := []byte("testkey_xxxxxxxx")
	now := time.Now()
	dp := router.NewDP([]uint16{1}, map[uint16]topology.LinkType{1: topology.Child}, nil,
		nil, addr.MustParseIA("1-ff00:0:110"), nil, key)
	spkt, dpath := prepBaseMsg(now)
	spkt.SrcIA = addr.MustParseIA("1-ff00:0:110")
	spkt.SrcAddrType = slayers.T4Svc
	spkt.RawSrcAddr = []byte{0x00, 0x01, 0x00, 0x00} // addr.SvcCS
	spkt.DstAddrType = slayers.T4Ip
	spkt.RawDstAddr = []byte{10, 0, 0, 1}
	dpath.HopFields = []path.HopField{
		{ConsIngress: 0, ConsEgress: 1},
		{ConsIngress: 31, ConsEgress: 30},
		{ConsIngress: 41, ConsEgress: 40},
	}
	dpath.Base.PathMeta.CurrHF = 0
	dpath.HopFields[0].Mac = computeMAC(t, key, dpath.InfoFields[0], dpath.HopFields[0])
	pkt := router.NewPacket(toBytes(t, spkt, dpath), nil, nil, 0, 0)
	defer func() {
		if r := recover(); r != nil {
			t.Fatalf("router fast path panicked: %v", r)
		}
	}()
	disp := dp.ProcessPkt(pkt)
	t.Logf("disposition %v", disp)
}
