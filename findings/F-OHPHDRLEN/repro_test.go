package router_test

import (
	"bytes"
	"testing"
	"time"

	"github.com/gopacket/gopacket"
	"github.com/golang/mock/gomock"

	"github.com/scionproto/scion/pkg/addr"
	"github.com/scionproto/scion/pkg/private/util"
	"github.com/scionproto/scion/pkg/slayers"
	"github.com/scionproto/scion/pkg/slayers/path"
	"github.com/scionproto/scion/pkg/slayers/path/onehop"
	"github.com/scionproto/scion/private/topology"
	"github.com/scionproto/scion/router"
)

// A one-hop-path packet whose HdrLen announces one line (4 bytes) more than the one-hop path needs is
// accepted by the decoder (the one-hop path decoder ignores trailing bytes). processOHP then rewrites
// the header so that it ENDS at the payload: the header is written 4 bytes too late and the packet
// that is forwarded no longer decodes to the packet that was received.
func TestVerifReproOHPHdrLen(t *testing.T) {
	ctrl := gomock.NewController(t)
	defer ctrl.Finish()
	key := []byte("testkey_xxxxxxxx")
	now := time.Now()
	local := addr.MustParseIA("1-ff00:0:110")
	remote := addr.MustParseIA("1-ff00:0:111")
	dp := router.NewDP([]uint16{1}, map[uint16]topology.LinkType{1: topology.Child}, nil, nil,
		local, map[uint16]addr.IA{1: remote}, key)
	ohp := &onehop.Path{
		Info:     path.InfoField{ConsDir: true, SegID: 0x222, Timestamp: util.TimeToSecs(now)},
		FirstHop: path.HopField{ConsEgress: 1, ExpTime: 63},
	}
	ohp.FirstHop.Mac = computeMAC(t, key, ohp.Info, ohp.FirstHop)
	spkt := &slayers.SCION{
		NextHdr: slayers.L4UDP, PathType: onehop.PathType, SrcIA: local, DstIA: remote,
		DstAddrType: slayers.T4Ip, RawDstAddr: []byte{10, 0, 0, 1},
		SrcAddrType: slayers.T4Ip, RawSrcAddr: []byte{10, 0, 0, 2},
		Path: ohp,
	}
	buf := gopacket.NewSerializeBuffer()
	udp := &slayers.UDP{SrcPort: 1, DstPort: 2}
	udp.SetNetworkLayerForChecksum(spkt)
	if err := gopacket.SerializeLayers(buf, gopacket.SerializeOptions{FixLengths: true},
		spkt, udp, gopacket.Payload([]byte("payload-bytes-ab"))); err != nil {
		t.Fatal(err)
	}
	good := buf.Bytes()
	hdr := int(good[5]) * 4
	// same packet, but with one padding line after the path and HdrLen increased accordingly
	raw := append([]byte{}, good[:hdr]...)
	raw = append(raw, 0, 0, 0, 0)
	raw = append(raw, good[hdr:]...)
	raw[5]++
	pkt := router.NewPacket(raw, nil, nil, 0, 0)
	disp := dp.ProcessPkt(pkt)
	if disp != router.Disposition(1) {
		t.Skipf("packet not forwarded (disposition %v): nothing to compare", disp)
	}
	out := pkt.RawPacket
	var a, b slayers.SCION
	a.RecyclePaths()
	b.RecyclePaths()
	if err := a.DecodeFromBytes(raw, gopacket.NilDecodeFeedback); err != nil {
		t.Fatal(err)
	}
	if err := b.DecodeFromBytes(out, gopacket.NilDecodeFeedback); err != nil {
		t.Fatalf("forwarded packet does not decode: %v", err)
	}
	if a.SrcIA != b.SrcIA || a.DstIA != b.DstIA || a.NextHdr != b.NextHdr ||
		!bytes.Equal(a.RawSrcAddr, b.RawSrcAddr) || a.PathType != b.PathType {
		t.Fatalf("forwarded packet differs from the received one outside the one-hop path:\n in  %+v\n out %+v", a, b)
	}
}
