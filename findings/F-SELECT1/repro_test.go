package beacon

import (
	"context"
	"testing"

	seg "github.com/scionproto/scion/pkg/segment"
)

// Selecting k=1 beacons out of 2 candidates indexed result[0] of an empty slice and panicked.
func TestVerifReproSelectOne(t *testing.T) {
	b := []Beacon{{Segment: &seg.PathSegment{}, InIfID: 1}, {Segment: &seg.PathSegment{}, InIfID: 2}}
	defer func() {
		if r := recover(); r != nil {
			t.Fatalf("SelectBeacons(k=1) panicked: %v", r)
		}
	}()
	got := baseAlgo{}.SelectBeacons(context.Background(), b, 1)
	if len(got) != 1 {
		t.Fatalf("want exactly one beacon, got %d", len(got))
	}
}
