#!/bin/sh
# runs the demonstration against /repo without writing to it
. /verif/env.sh
t=$(mktemp -d)
printf '{"Replace":{"/repo/pkg/spao/zz_finding_ecnmask_test.go":"/verif/findings/F-ECNMASK/repro_test.go"}}' > $t/ov.json
cd /repo && go test -overlay $t/ov.json -vet=off -count=1 -timeout 60s -run '^TestECNMask$' ./pkg/spao/
rm -rf $t
