package spao

// Demonstration of F-ECNMASK on the real code (run with go test -overlay, see run.sh):
// the SPAO authenticated data keeps the two ECN bits of the traffic class (which routers may rewrite) and
// drops the two most significant DSCP bits (which are covered according to authenticator-option.rst,
// "TC w/o ECN"): TrafficClass & 0x3f is used where TrafficClass & 0xfc is specified.

import (
	"bytes"
	"testing"

	"github.com/scionproto/scion/pkg/addr"
	"github.com/scionproto/scion/pkg/slayers"
	"github.com/scionproto/scion/pkg/slayers/path/empty"
)

func authData(t *testing.T, tc uint8) []byte {
	opt, err := slayers.NewPacketAuthOption(slayers.PacketAuthOptionParams{
		SPI: slayers.PacketAuthSPI(0x1), Algorithm: slayers.PacketAuthCMAC,
		TimestampSN: 0x060504030201, Auth: make([]byte, 16),
	})
	if err != nil {
		t.Fatal(err)
	}
	ia := addr.MustParseIA("1-ff00:0:110")
	s := &slayers.SCION{
		TrafficClass: tc, FlowID: 0x1234, SrcIA: ia, DstIA: ia,
		SrcAddrType: slayers.T4Ip, RawSrcAddr: []byte{10, 1, 1, 11},
		DstAddrType: slayers.T4Ip, RawDstAddr: []byte{10, 1, 1, 12},
		Path: empty.Path{}, PathType: empty.PathType,
	}
	buf := make([]byte, MACBufferSize)
	n, err := serializeAuthenticatedData(buf, s, opt, slayers.L4UDP, []byte("payload"))
	if err != nil {
		t.Fatal(err)
	}
	return buf[:n]
}

func TestECNMask(t *testing.T) {
	// (a) only the ECN bits differ (a router marking congestion): the authenticated data must not change
	if !bytes.Equal(authData(t, 0b10101000), authData(t, 0b10101011)) {
		t.Errorf("F-ECNMASK: authenticated data depends on the ECN bits of the traffic class")
	}
	// (b) only the two most significant DSCP bits differ: the authenticated data must change
	if bytes.Equal(authData(t, 0b00101000), authData(t, 0b11101000)) {
		t.Errorf("F-ECNMASK: authenticated data does not cover the two most significant DSCP bits")
	}
}
