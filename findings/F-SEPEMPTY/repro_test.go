package addr_test

import (
	"testing"

	"github.com/scionproto/scion/pkg/addr"
)

// WithSeparator documents that the empty string falls back to ':'; it was stored as is, and the
// formatted ISD-AS ("1-ff000110") did not parse back to the same value.
func TestVerifReproEmptySeparator(t *testing.T) {
	ia := addr.MustParseIA("1-ff00:0:110")
	s := addr.FormatIA(ia, addr.WithSeparator(""))
	if s != "1-ff00:0:110" {
		t.Fatalf("FormatIA with empty separator = %q, want %q", s, "1-ff00:0:110")
	}
	back, err := addr.ParseIA(s)
	if err != nil || back != ia {
		t.Fatalf("does not round-trip: %v %v", back, err)
	}
}
