package udpip

import (
	"net"
	"net/netip"
	"testing"

	"github.com/scionproto/scion/pkg/addr"
	"github.com/scionproto/scion/private/underlay/conn"
	"github.com/scionproto/scion/router"
)

type reproOpener struct{}

func (reproOpener) Open(l, r netip.AddrPort, c *conn.Config) (router.BatchConn, error) {
	return nil, nil
}
func (reproOpener) UDPCanReuseLocal() bool { return true }

// With a dispatched port range of [1024, 65535], a packet for port 80 must be delivered to the
// default end-host port 30041, whatever the order of SetDispatchPorts and NewInternalLink.
func TestVerifReproPortRange(t *testing.T) {
	for _, rangeFirst := range []bool{true, false} {
		p := newProvider(64, 0, 0).(*provider)
		p.SetConnOpener(reproOpener{})
		if rangeFirst {
			p.SetDispatchPorts(1024, 65535, 30041)
		}
		lk, err := p.NewInternalLink("127.0.0.1:30001", 16, nil)
		if err != nil {
			t.Fatal(err)
		}
		if !rangeFirst {
			p.SetDispatchPorts(1024, 65535, 30041)
		}
		for port, want := range map[uint16]int{80: 30041, 1023: 30041, 1024: 1024, 40000: 40000} {
			pkt := &router.Packet{}
			if err := lk.Resolve(pkt, addr.HostIP(netip.MustParseAddr("10.0.0.7")), port); err != nil {
				t.Fatal(err)
			}
			got := (*net.UDPAddr)(pkt.RemoteAddr).Port
			if got != want {
				t.Errorf("rangeFirst=%v port %d: delivered to %d, want %d", rangeFirst, port, got, want)
			}
		}
	}
}
