#!/bin/sh
# runs the demonstration against /repo without writing to it (passes after the fix: commit)
. /verif/env.sh
t=$(mktemp -d)
printf '{"Replace":{"/repo/router/zz_finding_epicptr_test.go":"/verif/findings/F-EPICPTR/repro_test.go"}}' > $t/ov.json
cd /repo && go test -overlay $t/ov.json -vet=off -count=1 -timeout 120s -run '^TestEPICPointer$' ./router/
rm -rf $t
