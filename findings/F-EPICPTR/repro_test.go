package router

// Demonstration of F-EPICPTR on the real code (run.sh injects this file with go test -overlay):
// for a packet with an EPIC path the offsets computed by currentHopPointer / currentInfoPointer - the
// pointer of SCMP parameter-problem messages - do not designate the current hop / info field in the
// packet: the 16 bytes of EPIC metadata in front of the path meta header are not counted.

import (
	"bytes"
	"testing"

	"github.com/gopacket/gopacket"

	"github.com/scionproto/scion/pkg/addr"
	"github.com/scionproto/scion/pkg/slayers"
	"github.com/scionproto/scion/pkg/slayers/path"
	"github.com/scionproto/scion/pkg/slayers/path/epic"
	"github.com/scionproto/scion/pkg/slayers/path/scion"
)

func TestEPICPointer(t *testing.T) {
	dec := &scion.Decoded{
		Base: scion.Base{
			PathMeta: scion.MetaHdr{CurrINF: 0, CurrHF: 1, SegLen: [3]uint8{3, 0, 0}},
			NumINF:   1, NumHops: 3,
		},
		InfoFields: []path.InfoField{{ConsDir: true, SegID: 0x1111, Timestamp: 100}},
		HopFields: []path.HopField{
			{ConsIngress: 0, ConsEgress: 1, Mac: [6]byte{0xa0, 0xa1, 0xa2, 0xa3, 0xa4, 0xa5}},
			{ConsIngress: 2, ConsEgress: 3, Mac: [6]byte{0xb0, 0xb1, 0xb2, 0xb3, 0xb4, 0xb5}},
			{ConsIngress: 4, ConsEgress: 0, Mac: [6]byte{0xc0, 0xc1, 0xc2, 0xc3, 0xc4, 0xc5}},
		},
	}
	raw, err := dec.ToRaw()
	if err != nil {
		t.Fatal(err)
	}
	ep := &epic.Path{
		PktID: epic.PktID{Timestamp: 1, Counter: 2},
		PHVF:  []byte{1, 2, 3, 4}, LHVF: []byte{5, 6, 7, 8},
		ScionPath: raw,
	}
	s := &slayers.SCION{
		NextHdr: slayers.L4UDP, PathType: epic.PathType, Path: ep,
		SrcIA: addr.MustParseIA("1-ff00:0:110"), DstIA: addr.MustParseIA("1-ff00:0:111"),
	}
	if err := s.SetSrcAddr(addr.MustParseHost("10.0.0.1")); err != nil {
		t.Fatal(err)
	}
	if err := s.SetDstAddr(addr.MustParseHost("10.0.0.2")); err != nil {
		t.Fatal(err)
	}
	buf := gopacket.NewSerializeBuffer()
	if err := gopacket.SerializeLayers(buf, gopacket.SerializeOptions{FixLengths: true}, s,
		gopacket.Payload([]byte("payload"))); err != nil {
		t.Fatal(err)
	}
	pkt := buf.Bytes()

	// what the router does with the packet before it computes pointers
	p := &scionPacketProcessor{}
	p.scionLayer.RecyclePaths()
	if err := p.scionLayer.DecodeFromBytes(pkt, gopacket.NilDecodeFeedback); err != nil {
		t.Fatal(err)
	}
	p.path = p.scionLayer.Path.(*epic.Path).ScionPath

	hopAt := bytes.Index(pkt, []byte{0xb0, 0xb1, 0xb2, 0xb3, 0xb4, 0xb5}) - 6 // MAC is at offset 6 of a hop field
	infAt := hopAt - 12 - 8                                                  // one hop field and the info field before it
	if got := int(p.currentHopPointer()); got != hopAt {
		t.Errorf("F-EPICPTR: currentHopPointer() = %d, the current hop field starts at byte %d", got, hopAt)
	}
	if got := int(p.currentInfoPointer()); got != infAt {
		t.Errorf("F-EPICPTR: currentInfoPointer() = %d, the current info field starts at byte %d", got, infAt)
	}
}
