// Demonstration for finding F-QUORUMNEG (property C33): TRC.Validate accepts a negative voting quorum.
// Place in /repo/pkg/scrypto/cppki/ (package cppki_test) or run through `go test -overlay`.
package cppki_test

import (
	"testing"
)

func TestFindingNegativeQuorum(t *testing.T) {
	trc := newBaseTRC(t)
	if err := trc.Validate(); err != nil {
		t.Fatalf("baseline TRC must validate: %v", err)
	}
	for _, q := range []int{-1, -255, -1 << 40} {
		trc := newBaseTRC(t)
		trc.Quorum = q
		if err := trc.Validate(); err == nil {
			t.Errorf("TRC with votingQuorum %d validates; the quorum must be between 1 and 255", q)
		}
	}
	// consequence: an update is checked against "len(votes) >= predecessor quorum"; with a negative quorum
	// an update without any vote gets past that check and ValidateUpdate indexes Votes[0] of an empty slice.
	pred := loadTRC(t, "./testdata/ISD1-B1-S1.trc")
	succ := loadTRC(t, "./testdata/ISD1-B1-S2.trc")
	pred.TRC.Quorum = -1
	succ.TRC.Votes = nil
	if pred.TRC.Validate() != nil {
		return // the predecessor is rejected (behaviour after the fix): it can never become a stored TRC
	}
	func() {
		defer func() {
			if r := recover(); r != nil {
				t.Errorf("ValidateUpdate panicked for a predecessor with negative quorum and an update without votes: %v", r)
			}
		}()
		_, _ = succ.TRC.ValidateUpdate(&pred.TRC)
	}()
}
