package main

// Generator-side quantifier instantiation. SMT solvers' E-matching is syntactic and fails on
// bit-vector index arithmetic (off + k - 1 + i never matches the pattern off + j after the solver's
// own normalisation). Before a query is printed, universally quantified hypotheses whose bound
// variable occurs linearly in a select index are instantiated for every ground index term of the
// query ("E-matching modulo offset"); negated universal goals and existential hypotheses are
// skolemised first so that their witnesses are ground. Only instances of assumptions are added, so the
// transformation is sound; the original quantified formulas are kept.

import "fmt"

var skCtr int

func skolemVar(hint string, s *Sort) *Term {
	skCtr++
	return mkVar(fmt.Sprintf("sk!%s!%d", hint, skCtr), s)
}

// skolemize removes quantifiers that can be replaced by fresh constants in a conjunct that is asserted:
// positive exists and negative forall.
func skolemize(t *Term, positive bool) *Term {
	switch t.op {
	case "not":
		return Not(skolemize(t.args[0], !positive))
	case "and": // monotone: the polarity passes through
		out := make([]*Term, len(t.args))
		for i, a := range t.args {
			out[i] = skolemize(a, positive)
		}
		return And(out...)
	case "or":
		out := make([]*Term, len(t.args))
		for i, a := range t.args {
			out[i] = skolemize(a, positive)
		}
		return Or(out...)
	case "ite":
		if t.sort == BoolS && !t.args[0].bound {
			return Ite(t.args[0], skolemize(t.args[1], positive), skolemize(t.args[2], positive))
		}
	case "=>":
		// a => b == (not a) or b: the antecedent has the opposite polarity
		return Implies(skolemize(t.args[0], !positive), skolemize(t.args[1], positive))
	case "forall":
		if !positive && !t.bound {
			m := map[int]*Term{}
			for _, v := range t.bvars {
				m[v.id] = skolemVar(v.name, v.sort)
			}
			return skolemize(subst(t.args[0], m, map[int]*Term{}), false)
		}
	case "exists":
		if positive && !t.bound {
			m := map[int]*Term{}
			for _, v := range t.bvars {
				m[v.id] = skolemVar(v.name, v.sort)
			}
			return skolemize(subst(t.args[0], m, map[int]*Term{}), true)
		}
	}
	return t
}

// arrayRoot peels stores (and ite branches are not followed) off an array term.
func arrayRoot(a *Term) *Term {
	for a.op == "store" {
		a = a.args[0]
	}
	return a
}

// groundIndexTerms collects the ground 64-bit index terms of select applications, grouped by the root
// of the array they read (stores peeled off).
func groundIndexTerms(t *Term, seen map[int]bool, out map[int]map[int]*Term) {
	if seen[t.id] {
		return
	}
	seen[t.id] = true
	if t.op == "select" && !t.args[1].bound && t.args[1].sort == I64 {
		r := arrayRoot(t.args[0])
		if !r.bound {
			if out[r.id] == nil {
				out[r.id] = map[int]*Term{}
			}
			out[r.id][t.args[1].id] = t.args[1]
		}
	}
	for _, a := range t.args {
		groundIndexTerms(a, seen, out)
	}
}

// arraysRead collects the roots of the arrays a quantified body reads at an index containing v.
func arraysRead(body *Term, seen map[int]bool, out map[int]bool) {
	if seen[body.id] || !body.bound {
		return
	}
	seen[body.id] = true
	if body.op == "select" && body.args[1].bound {
		out[arrayRoot(body.args[0]).id] = true
	}
	for _, a := range body.args {
		arraysRead(a, seen, out)
	}
}

// offsetsOf finds, for bound variable v, the ground offsets B such that body contains select(_, B+v).
func offsetsOf(body *Term, v *Term, seen map[int]bool, out map[int]*Term) {
	if seen[body.id] || !body.bound {
		return
	}
	seen[body.id] = true
	if body.op == "select" {
		idx := body.args[1]
		if idx == v {
			z := mkBV(0, v.sort.bv)
			out[z.id] = z
		} else if idx.op == "bvadd" {
			var rest []*Term
			found := 0
			ok := true
			for _, a := range idx.args {
				if a == v {
					found++
				} else if a.bound {
					ok = false
				} else {
					rest = append(rest, a)
				}
			}
			if ok && found == 1 {
				b := mkAdd(v.sort.bv, rest...)
				out[b.id] = b
			}
		}
	}
	for _, a := range body.args {
		offsetsOf(a, v, seen, out)
	}
}

// collectForalls finds single-variable universal hypotheses in positive position (top-level conjuncts and
// consequents of implications with ground antecedents).
type hyp struct {
	guard *Term // ground antecedent or nil
	q     *Term
}

func collectForalls(t *Term, guard *Term, out *[]hyp) {
	switch t.op {
	case "and":
		for _, a := range t.args {
			collectForalls(a, guard, out)
		}
	case "=>":
		if !t.args[0].bound {
			g := t.args[0]
			if guard != nil {
				g = And(guard, g)
			}
			collectForalls(t.args[1], g, out)
		}
	case "forall":
		if len(t.bvars) == 1 && !t.bound && t.bvars[0].sort == I64 {
			*out = append(*out, hyp{guard, t})
		}
	}
}

// instantiateQuery returns f with instances of its universal hypotheses added. If neg (the negated goal,
// one of the conjuncts of f) is given, the selection is goal-directed: the first round instantiates at the
// index terms of the goal only, the following rounds at the index terms of the instances added so far.
func instantiateQuery(f *Term, neg *Term) *Term {
	var seedsT *Term
	if neg != nil && f.op == "and" {
		// skolemise conjunct by conjunct so that the goal's skolem constants are known
		out := make([]*Term, len(f.args))
		found := false
		for i, a := range f.args {
			out[i] = skolemize(a, true)
			if a == neg {
				seedsT = out[i]
				found = true
			}
		}
		f = And(out...)
		if !found {
			seedsT = nil
		}
	} else {
		f = skolemize(f, true)
	}
	extra := []*Term{}
	done := map[string]bool{}
	cur := f
	seedFrom := seedsT
	for round := 0; round < 3; round++ {
		var hyps []hyp
		collectForalls(cur, nil, &hyps)
		if len(hyps) == 0 {
			break
		}
		byRoot := map[int]map[int]*Term{}
		if seedFrom != nil {
			groundIndexTerms(seedFrom, map[int]bool{}, byRoot)
		} else {
			groundIndexTerms(cur, map[int]bool{}, byRoot)
		}
		if len(byRoot) == 0 {
			break
		}
		added := 0
		var newInst []*Term
		for _, h := range hyps {
			v := h.q.bvars[0]
			offs := map[int]*Term{}
			offsetsOf(h.q.args[0], v, map[int]bool{}, offs)
			// candidate instances: index terms at which the query reads one of the arrays the hypothesis
			// talks about
			roots := map[int]bool{}
			arraysRead(h.q.args[0], map[int]bool{}, roots)
			idxs := map[int]*Term{}
			for r := range roots {
				for id, ix := range byRoot[r] {
					idxs[id] = ix
				}
			}
			if len(idxs) > 600 {
				continue
			}
			for _, b := range offs {
				for _, ix := range idxs {
					inst := subOffset(ix, b)
					key := fmt.Sprintf("%d:%d", h.q.id, inst.id)
					if done[key] {
						continue
					}
					done[key] = true
					body := subst(h.q.args[0], map[int]*Term{v.id: inst}, map[int]*Term{})
					body = skolemize(body, true)
					if h.guard != nil {
						body = Implies(h.guard, body)
					}
					if body == True {
						continue
					}
					extra = append(extra, body)
					newInst = append(newInst, body)
					added++
					if added > 1500 {
						break
					}
				}
			}
		}
		if added == 0 {
			break
		}
		cur = And(append([]*Term{f}, extra...)...)
		if seedsT != nil {
			seedFrom = And(newInst...)
		}
	}
	return And(append([]*Term{f}, extra...)...)
}

// subOffset computes ix - b, cancelling syntactically when the summands of b occur in ix.
func subOffset(ix, b *Term) *Term {
	w := ix.sort.bv
	if b.isConst() && b.c.Sign() == 0 {
		return ix
	}
	summands := func(t *Term) []*Term {
		if t.op == "bvadd" {
			return t.args
		}
		return []*Term{t}
	}
	ia := append([]*Term{}, summands(ix)...)
	var consts []*Term
	for _, x := range summands(b) {
		if x.isConst() {
			consts = append(consts, x)
			continue
		}
		found := false
		for k, y := range ia {
			if y == x {
				ia = append(ia[:k], ia[k+1:]...)
				found = true
				break
			}
		}
		if !found {
			return BvBin("bvsub", ix, b)
		}
	}
	r := mkAdd(w, ia...)
	for _, c := range consts {
		r = BvBin("bvsub", r, c)
	}
	return r
}
