package main

// Generator-side quantifier instantiation. SMT solvers' E-matching is syntactic and fails on
// bit-vector index arithmetic (off + k - 1 + i never matches the pattern off + j after the solver's
// own normalisation). Before a query is printed, universally quantified hypotheses whose bound
// variable occurs linearly in a select index are instantiated for every ground index term of the
// query ("E-matching modulo offset"); negated universal goals and existential hypotheses are
// skolemised first so that their witnesses are ground. Only instances of assumptions are added, so the
// transformation is sound; the original quantified formulas are kept.

import (
	"fmt"
	"os"
	"sort"
)

var skCtr int

var noDefTrig = os.Getenv("GOWP_NODEFTRIG") != ""

func skolemVar(hint string, s *Sort) *Term {
	skCtr++
	return mkVar(fmt.Sprintf("sk!%s!%d", hint, skCtr), s)
}

// skolemize removes quantifiers that can be replaced by fresh constants in a conjunct that is asserted:
// positive exists and negative forall.
func skolemize(t *Term, positive bool) *Term {
	switch t.op {
	case "not":
		return Not(skolemize(t.args[0], !positive))
	case "and": // monotone: the polarity passes through
		out := make([]*Term, len(t.args))
		for i, a := range t.args {
			out[i] = skolemize(a, positive)
		}
		return And(out...)
	case "or":
		out := make([]*Term, len(t.args))
		for i, a := range t.args {
			out[i] = skolemize(a, positive)
		}
		return Or(out...)
	case "ite":
		if t.sort == BoolS && !t.args[0].bound {
			return Ite(t.args[0], skolemize(t.args[1], positive), skolemize(t.args[2], positive))
		}
	case "=>":
		// a => b == (not a) or b: the antecedent has the opposite polarity
		return Implies(skolemize(t.args[0], !positive), skolemize(t.args[1], positive))
	case "forall":
		if !positive && !t.bound {
			m := map[int]*Term{}
			for _, v := range t.bvars {
				m[v.id] = skolemVar(v.name, v.sort)
			}
			return skolemize(subst(t.args[0], m, map[int]*Term{}), false)
		}
	case "exists":
		if positive && !t.bound {
			m := map[int]*Term{}
			for _, v := range t.bvars {
				m[v.id] = skolemVar(v.name, v.sort)
			}
			return skolemize(subst(t.args[0], m, map[int]*Term{}), true)
		}
	}
	return t
}

// arrayRoots collects the region variables an array term is built from: stores, the row selection
// select(region, base) of a two-level region and both branches of an ite are peeled off. Keying on
// the region variable (not on the row term) matters: the row a hypothesis reads and the row the
// goal reads are often different terms for the same row (select(H, b) before a call, select(store(H,
// b', r), b) after it), and a filter keyed on the row term then drops the instance the proof needs.
func arrayRoots(a *Term, out map[int]bool) {
	for {
		switch a.op {
		case "store":
			if a.args[2].sort.idx != nil {
				// a stored row: the query may read it through this store
				arrayRoots(a.args[2], out)
			}
			a = a.args[0]
			continue
		case "select":
			a = a.args[0]
			continue
		case "ite":
			arrayRoots(a.args[1], out)
			arrayRoots(a.args[2], out)
			return
		}
		break
	}
	if !a.bound {
		out[a.id] = true
	}
}

// groundIndexTerms collects the ground 64-bit index terms of select applications, grouped by the root
// of the array they read.
func groundIndexTerms(t *Term, seen map[int]bool, out map[int]map[int]*Term) {
	if seen[t.id] {
		return
	}
	seen[t.id] = true
	if t.op == "select" && !t.args[1].bound && t.args[1].sort == I64 {
		roots := map[int]bool{}
		arrayRoots(t.args[0], roots)
		for r := range roots {
			if out[r] == nil {
				out[r] = map[int]*Term{}
			}
			out[r][t.args[1].id] = t.args[1]
		}
	}
	for _, a := range t.args {
		groundIndexTerms(a, seen, out)
	}
}

// arraysRead collects the roots of the arrays a quantified body reads at an index containing v.
func arraysRead(body *Term, seen map[int]bool, out map[int]bool) {
	if seen[body.id] || !body.bound {
		return
	}
	seen[body.id] = true
	if body.op == "select" && body.args[1].bound {
		arrayRoots(body.args[0], out)
	}
	for _, a := range body.args {
		arraysRead(a, seen, out)
	}
}

// offsetsOf finds, for bound variable v, the ground offsets B such that body contains select(_, B+v).
func offsetsOf(body *Term, v *Term, seen map[int]bool, out map[int]*Term) {
	if seen[body.id] || !body.bound {
		return
	}
	seen[body.id] = true
	if body.op == "select" {
		idx := body.args[1]
		if idx == v {
			z := mkBV(0, v.sort.bv)
			out[z.id] = z
		} else if idx.op == "bvadd" {
			var rest []*Term
			found := 0
			ok := true
			for _, a := range idx.args {
				if a == v {
					found++
				} else if a.bound {
					ok = false
				} else {
					rest = append(rest, a)
				}
			}
			if ok && found == 1 {
				b := mkAdd(v.sort.bv, rest...)
				out[b.id] = b
			}
		}
	}
	for _, a := range body.args {
		offsetsOf(a, v, seen, out)
	}
}

// collectForalls finds single-variable universal hypotheses in positive position (top-level conjuncts and
// consequents of implications with ground antecedents).
type hyp struct {
	guard *Term // ground antecedent or nil
	q     *Term
}

func collectForalls(t *Term, guard *Term, out *[]hyp) {
	switch t.op {
	case "and":
		for _, a := range t.args {
			collectForalls(a, guard, out)
		}
	case "=>":
		if !t.args[0].bound {
			g := t.args[0]
			if guard != nil {
				g = And(guard, g)
			}
			collectForalls(t.args[1], g, out)
		}
	case "or":
		// A1 or ... or (forall ...): the quantified disjunct holds whenever the ground ones do not
		qi := -1
		var ng []*Term
		for i, a := range t.args {
			if containsQuant(a) {
				if qi >= 0 {
					return
				}
				qi = i
			} else if a.bound {
				return
			} else {
				ng = append(ng, Not(a))
			}
		}
		if qi >= 0 {
			g := And(ng...)
			if guard != nil {
				g = And(guard, g)
			}
			collectForalls(t.args[qi], g, out)
		}
	case "forall":
		if len(t.bvars) == 1 && !t.bound && t.bvars[0].sort == I64 {
			*out = append(*out, hyp{guard, t})
		}
		if len(t.bvars) == 2 && !t.bound && t.bvars[0].sort == I64 && t.bvars[1].sort == I64 {
			*out = append(*out, hyp{guard, t})
		}
	}
}

// instantiateQuery returns f with instances of its universal hypotheses added. If neg (the negated goal,
// one of the conjuncts of f) is given, the selection is goal-directed: the first round instantiates at the
// index terms of the goal only, the following rounds at the index terms of the instances added so far.
func instantiateQuery(f *Term, neg *Term) *Term {
	var seedsT *Term
	if neg != nil && f.op == "and" {
		// skolemise conjunct by conjunct so that the goal's skolem constants are known
		out := make([]*Term, len(f.args))
		found := false
		for i, a := range f.args {
			out[i] = skolemize(a, true)
			if a == neg {
				seedsT = out[i]
				found = true
			}
		}
		f = And(out...)
		if !found {
			seedsT = nil
		}
	} else {
		f = skolemize(f, true)
	}
	// A negated goal that is still quantified after skolemisation (the goal was existential) is itself a
	// hypothesis to instantiate and names no ground index: the witnesses it needs occur elsewhere in the
	// query, so the selection cannot be directed by it.
	if seedsT != nil && containsQuant(seedsT) {
		seedsT = nil
	}
	extra := []*Term{}
	done := map[string]bool{}
	cur := f
	seedFrom := seedsT
	for round := 0; round < 3; round++ {
		var hyps []hyp
		collectForalls(cur, nil, &hyps)
		if len(hyps) == 0 {
			break
		}
		byRoot := map[int]map[int]*Term{}
		if seedFrom != nil {
			groundIndexTerms(seedFrom, map[int]bool{}, byRoot)
			if len(byRoot) == 0 && round == 0 {
				// the goal reads no array: undirected selection
				seedsT, seedFrom = nil, nil
			}
		}
		if seedFrom == nil {
			groundIndexTerms(cur, map[int]bool{}, byRoot)
		}
		if len(byRoot) == 0 {
			break
		}
		added := 0
		var newInst []*Term
		for _, h := range hyps {
			if len(h.q.bvars) == 2 && seedsT == nil {
				continue // pairwise instances only in goal-directed mode (the undirected product is too large)
			}
			if len(h.q.bvars) == 2 {
				// two index variables (pairwise facts such as distinctness): every pair of candidates
				roots := map[int]bool{}
				arraysRead(h.q.args[0], map[int]bool{}, roots)
				idxs := map[int]*Term{}
				for r := range roots {
					for id, ix := range byRoot[r] {
						idxs[id] = ix
					}
				}
				var cands [2][]*Term
				for vi := 0; vi < 2; vi++ {
					offs := map[int]*Term{}
					offsetsOf(h.q.args[0], h.q.bvars[vi], map[int]bool{}, offs)
					seenC := map[int]bool{}
					for _, b := range sortedTerms(offs) {
						for _, ix := range sortedTerms(idxs) {
							c := subOffset(ix, b)
							if !seenC[c.id] {
								seenC[c.id] = true
								cands[vi] = append(cands[vi], c)
							}
						}
					}
				}
				if len(cands[0])*len(cands[1]) > 900 {
					continue
				}
				for _, c0 := range cands[0] {
					for _, c1 := range cands[1] {
						if c0 == c1 {
							continue
						}
						key := fmt.Sprintf("%d:%d:%d", h.q.id, c0.id, c1.id)
						if done[key] {
							continue
						}
						done[key] = true
						body := subst(h.q.args[0], map[int]*Term{h.q.bvars[0].id: c0, h.q.bvars[1].id: c1}, map[int]*Term{})
						body = skolemize(body, true)
						if h.guard != nil {
							body = Implies(h.guard, body)
						}
						if body == True {
							continue
						}
						extra = append(extra, body)
						newInst = append(newInst, body)
						added++
					}
				}
				continue
			}
			v := h.q.bvars[0]
			offs := map[int]*Term{}
			offsetsOf(h.q.args[0], v, map[int]bool{}, offs)
			// candidate instances: index terms at which the query reads one of the arrays the hypothesis
			// talks about
			roots := map[int]bool{}
			if b := h.q.args[0]; !noDefTrig && seedsT != nil && b.op == "=" && b.args[0].op == "select" && b.args[0].args[1] == v && b.args[0].args[0].op == "var" && !b.args[0].args[0].bound {
				// definitional hypothesis A[j] = rhs(j) of a fresh array A (copy, append): its instances
				// are useful exactly where the query reads A
				roots[b.args[0].args[0].id] = true
				z := mkBV(0, v.sort.bv)
				offs = map[int]*Term{z.id: z}
			} else {
				arraysRead(h.q.args[0], map[int]bool{}, roots)
			}
			idxs := map[int]*Term{}
			for r := range roots {
				for id, ix := range byRoot[r] {
					idxs[id] = ix
				}
			}
			if len(idxs) > 600 {
				continue
			}
			// sorted: the order of the instances in the query must not depend on map iteration (solver
			// times vary with the order of assertions)
			for _, b := range sortedTerms(offs) {
				for _, ix := range sortedTerms(idxs) {
					inst := subOffset(ix, b)
					key := fmt.Sprintf("%d:%d", h.q.id, inst.id)
					if done[key] {
						continue
					}
					done[key] = true
					body := subst(h.q.args[0], map[int]*Term{v.id: inst}, map[int]*Term{})
					body = skolemize(body, true)
					if h.guard != nil {
						body = Implies(h.guard, body)
					}
					if body == True {
						continue
					}
					extra = append(extra, body)
					newInst = append(newInst, body)
					added++
					if added > 1500 {
						break
					}
				}
			}
		}
		if added == 0 {
			break
		}
		cur = And(append([]*Term{f}, extra...)...)
		if seedsT != nil {
			// cumulative: the goal's own index terms stay candidates (an inner quantifier exposed by an
			// instance of a nested hypothesis has to be instantiated at them as well)
			seedFrom = And(append([]*Term{seedsT}, newInst...)...)
		}
	}
	return And(append([]*Term{f}, extra...)...)
}

func sortedTerms(m map[int]*Term) []*Term {
	ids := make([]int, 0, len(m))
	for id := range m {
		ids = append(ids, id)
	}
	sort.Ints(ids)
	out := make([]*Term, len(ids))
	for i, id := range ids {
		out[i] = m[id]
	}
	return out
}

// subOffset computes ix - b, cancelling syntactically when the summands of b occur in ix.
func subOffset(ix, b *Term) *Term {
	w := ix.sort.bv
	if b.isConst() && b.c.Sign() == 0 {
		return ix
	}
	summands := func(t *Term) []*Term {
		if t.op == "bvadd" {
			return t.args
		}
		return []*Term{t}
	}
	ia := append([]*Term{}, summands(ix)...)
	var consts []*Term
	for _, x := range summands(b) {
		if x.isConst() {
			consts = append(consts, x)
			continue
		}
		found := false
		for k, y := range ia {
			if y == x {
				ia = append(ia[:k], ia[k+1:]...)
				found = true
				break
			}
		}
		if !found {
			return BvBin("bvsub", ix, b)
		}
	}
	r := mkAdd(w, ia...)
	for _, c := range consts {
		r = BvBin("bvsub", r, c)
	}
	return r
}
