package main

// Evaluation of contract expressions (a Go expression subset plus old, forall_,
// exists_, implies_, spec functions) into terms over a symbolic state.

import (
	"fmt"
	"go/ast"
	"go/constant"
	"go/token"
	"go/types"
	"math/big"
	"strconv"
	"strings"
)

type typesT = types.Type

type Env struct {
	x           *Exec
	st          *State
	oldSt       *State // state for old(); nil => same as st
	vars        map[string]SV
	pkg         *types.Package
	lookup      func(name string) (SV, bool) // extra resolver (loop locals)
	inSpec      bool                         // inside a spec function body: no heap
	visited     func() (*Term, types.Type)   // visited-key set of the enclosing map range loop
	assumeFresh bool                         // evaluating a callee postcondition at a call site: fresh(x) names a new allocation
}

func (e *Env) child() *Env {
	n := *e
	n.vars = map[string]SV{}
	for k, v := range e.vars {
		n.vars[k] = v
	}
	return &n
}

type evalErr struct{ msg string }

func (e evalErr) Error() string { return e.msg }

func efail(f string, a ...any) { panic(evalErr{fmt.Sprintf(f, a...)}) }

// EvalBool evaluates a boolean contract expression; errors are returned.
func (e *Env) EvalBool(x ast.Expr) (t *Term, err error) {
	defer func() {
		if r := recover(); r != nil {
			if ee, ok := r.(evalErr); ok {
				err = ee
				return
			}
			panic(r)
		}
	}()
	v := e.eval(x, types.Typ[types.Bool])
	if len(v.l) != 1 || v.l[0].sort != BoolS {
		efail("expression is not boolean: %s", exprStr(x))
	}
	return v.l[0], nil
}

func (e *Env) EvalAny(x ast.Expr, hint types.Type) (v SV, err error) {
	defer func() {
		if r := recover(); r != nil {
			if ee, ok := r.(evalErr); ok {
				err = ee
				return
			}
			panic(r)
		}
	}()
	return e.eval(x, hint), nil
}

func exprStr(x ast.Expr) string { return types.ExprString(x) }

// resolveType resolves a type expression in the package scope.
func (e *Env) resolveType(x ast.Expr) types.Type {
	switch t := x.(type) {
	case *ast.Ident:
		if o := types.Universe.Lookup(t.Name); o != nil {
			if tn, ok := o.(*types.TypeName); ok {
				return tn.Type()
			}
		}
		if o := e.pkg.Scope().Lookup(t.Name); o != nil {
			if tn, ok := o.(*types.TypeName); ok {
				return tn.Type()
			}
		}
		efail("unknown type %s", t.Name)
	case *ast.SelectorExpr:
		if id, ok := t.X.(*ast.Ident); ok {
			if p := e.importNamed(id.Name); p != nil {
				if o := p.Scope().Lookup(t.Sel.Name); o != nil {
					if tn, ok := o.(*types.TypeName); ok {
						return tn.Type()
					}
				}
			}
		}
		efail("unknown type %s", exprStr(x))
	case *ast.StarExpr:
		return types.NewPointer(e.resolveType(t.X))
	case *ast.ArrayType:
		if t.Len == nil {
			return types.NewSlice(e.resolveType(t.Elt))
		}
		n := e.eval(t.Len, types.Typ[types.Int])
		if !n.t().isConst() {
			efail("array length not constant")
		}
		return types.NewArray(e.resolveType(t.Elt), n.t().c.Int64())
	case *ast.ParenExpr:
		return e.resolveType(t.X)
	}
	efail("unsupported type expression %s", exprStr(x))
	return nil
}

func (e *Env) importNamed(name string) *types.Package {
	if pc := e.x.contracts[e.pkg.Path()]; pc != nil {
		if p, ok := pc.imports[name]; ok {
			if tp := e.x.typesPkg(p); tp != nil {
				return tp
			}
		}
	}
	for _, p := range e.pkg.Imports() {
		if p.Name() == name {
			return p
		}
	}
	// any loaded package with that name
	return e.x.pkgByName(name)
}

func (e *Env) isTypeExpr(x ast.Expr) (types.Type, bool) {
	switch t := x.(type) {
	case *ast.Ident:
		if _, ok := e.vars[t.Name]; ok {
			return nil, false
		}
		if o := types.Universe.Lookup(t.Name); o != nil {
			if tn, ok := o.(*types.TypeName); ok {
				return tn.Type(), true
			}
			return nil, false
		}
		if o := e.pkg.Scope().Lookup(t.Name); o != nil {
			if tn, ok := o.(*types.TypeName); ok {
				return tn.Type(), true
			}
		}
	case *ast.SelectorExpr:
		if id, ok := t.X.(*ast.Ident); ok {
			if _, isVar := e.vars[id.Name]; !isVar {
				if p := e.importNamed(id.Name); p != nil {
					if o := p.Scope().Lookup(t.Sel.Name); o != nil {
						if tn, ok := o.(*types.TypeName); ok {
							return tn.Type(), true
						}
					}
				}
			}
		}
	case *ast.ParenExpr:
		return e.isTypeExpr(t.X)
	case *ast.StarExpr:
		if tt, ok := e.isTypeExpr(t.X); ok {
			return types.NewPointer(tt), true
		}
	case *ast.ArrayType:
		return e.resolveType(t), true
	}
	return nil, false
}

func constToSV(v constant.Value, ty types.Type, hint types.Type) SV {
	if b, ok := ty.Underlying().(*types.Basic); ok && b.Info()&types.IsUntyped != 0 {
		if hint != nil && scalarSort(hint) != nil {
			ty = hint
		} else {
			ty = types.Default(ty)
		}
	}
	s := scalarSort(ty)
	switch v.Kind() {
	case constant.Bool:
		return scalarSV(ty, mkBool(constant.BoolVal(v)))
	case constant.Int:
		if s == nil || s.bv == 0 {
			s = I64
			ty = types.Typ[types.Int]
		}
		bi, _ := new(big.Int).SetString(v.ExactString(), 10)
		return scalarSV(ty, mkBVbig(bi, s.bv))
	case constant.String:
		return scalarSV(ty, strConst(constant.StringVal(v)))
	case constant.Float:
		if s != nil && s.bv > 0 && isInt(ty) {
			if iv := constant.ToInt(v); iv.Kind() == constant.Int {
				bi, _ := new(big.Int).SetString(iv.ExactString(), 10)
				return scalarSV(ty, mkBVbig(bi, s.bv))
			}
		}
	}
	efail("unsupported constant %s", v.String())
	return SV{}
}

var strIDs = map[string]int{"": 0}

func strConst(s string) *Term {
	id, ok := strIDs[s]
	if !ok {
		id = len(strIDs)
		strIDs[s] = id
	}
	return mkBV(int64(id), 32)
}

var strlenUF = declUF("strlen", []*Sort{BV(32)}, I64)

func strLen(t *Term) *Term {
	if t.isConst() {
		for s, id := range strIDs {
			if int64(id) == t.c.Int64() {
				return mkBV(int64(len(s)), 64)
			}
		}
	}
	return App(strlenUF, t)
}

func (e *Env) eval(x ast.Expr, hint types.Type) SV {
	v := e.eval0(x, hint)
	if e.st != nil && e.st.rewrites != nil && len(v.l) == 1 {
		if c, ok := e.st.rewrites[v.l[0].id]; ok {
			v.l = []*Term{c}
		}
	}
	return v
}

func (e *Env) eval0(x ast.Expr, hint types.Type) SV {
	switch n := x.(type) {
	case *ast.ParenExpr:
		return e.eval(n.X, hint)
	case *ast.BasicLit:
		switch n.Kind {
		case token.INT:
			v := constant.MakeFromLiteral(n.Value, token.INT, 0)
			return constToSV(v, types.Typ[types.UntypedInt], hint)
		case token.STRING:
			s, _ := strconv.Unquote(n.Value)
			return scalarSV(types.Typ[types.String], strConst(s))
		case token.CHAR:
			v := constant.MakeFromLiteral(n.Value, token.CHAR, 0)
			return constToSV(v, types.Typ[types.UntypedRune], hint)
		}
		efail("unsupported literal %s", n.Value)
	case *ast.Ident:
		return e.evalIdent(n, hint)
	case *ast.SelectorExpr:
		return e.evalSelector(n, hint)
	case *ast.StarExpr:
		p := e.eval(n.X, nil)
		return e.st.load(e.x, p)
	case *ast.UnaryExpr:
		switch n.Op {
		case token.NOT:
			v := e.eval(n.X, hint)
			return scalarSV(v.ty, Not(v.t()))
		case token.SUB:
			v := e.eval(n.X, hint)
			return scalarSV(v.ty, BvNeg(v.t()))
		case token.XOR:
			v := e.eval(n.X, hint)
			return scalarSV(v.ty, BvNot(v.t()))
		case token.ADD:
			return e.eval(n.X, hint)
		case token.AND:
			return e.evalAddr(n.X)
		}
		efail("unsupported unary %s", n.Op)
	case *ast.BinaryExpr:
		return e.evalBinary(n, hint)
	case *ast.IndexExpr:
		return e.evalIndex(n)
	case *ast.SliceExpr:
		return e.evalSlice(n)
	case *ast.CallExpr:
		return e.evalCall(n, hint)
	}
	efail("unsupported expression %s (%T)", exprStr(x), x)
	return SV{}
}

func isUntypedConst(x ast.Expr) bool {
	switch n := x.(type) {
	case *ast.BasicLit:
		return true
	case *ast.ParenExpr:
		return isUntypedConst(n.X)
	case *ast.UnaryExpr:
		return isUntypedConst(n.X)
	case *ast.BinaryExpr:
		return isUntypedConst(n.X) && isUntypedConst(n.Y)
	case *ast.Ident:
		return n.Name == "nil"
	}
	return false
}

func (e *Env) evalIdent(n *ast.Ident, hint types.Type) SV {
	if v, ok := e.vars[n.Name]; ok {
		return v
	}
	if e.lookup != nil {
		if v, ok := e.lookup(n.Name); ok {
			return v
		}
	}
	switch n.Name {
	case "true":
		return scalarSV(types.Typ[types.Bool], True)
	case "false":
		return scalarSV(types.Typ[types.Bool], False)
	case "nil":
		if hint == nil {
			efail("nil without type context")
		}
		return zeroSV(hint)
	}
	if o := e.pkg.Scope().Lookup(n.Name); o != nil {
		return e.objValue(o, hint)
	}
	if o := types.Universe.Lookup(n.Name); o != nil {
		if c, ok := o.(*types.Const); ok {
			return constToSV(c.Val(), c.Type(), hint)
		}
	}
	// ghost vars
	if g := e.x.ghost(e.pkg.Path(), n.Name); g != nil {
		return e.st.load(e.x, g.ptr)
	}
	efail("unknown identifier %s", n.Name)
	return SV{}
}

func (e *Env) objValue(o types.Object, hint types.Type) SV {
	switch c := o.(type) {
	case *types.Const:
		return constToSV(c.Val(), c.Type(), hint)
	case *types.Var:
		if e.inSpec {
			efail("global %s in spec function", c.Name())
		}
		return e.st.load(e.x, globalPtr(c))
	case *types.Func:
		return scalarSV(c.Type(), e.x.funcRef(c.FullName()))
	}
	efail("cannot evaluate object %s", o.Name())
	return SV{}
}

func globalPtr(v *types.Var) SV {
	key := "G:" + v.Pkg().Path() + "." + v.Name()
	return SV{ty: types.NewPointer(v.Type()), l: []*Term{mkBV(1, 32)},
		p: &PtrInfo{rootKey: key, rootTy: v.Type()}}
}

func (e *Env) evalSelector(n *ast.SelectorExpr, hint types.Type) SV {
	// qualified identifier?
	if id, ok := n.X.(*ast.Ident); ok {
		_, isVar := e.vars[id.Name]
		if !isVar && e.lookup != nil {
			_, isVar = e.lookup(id.Name)
		}
		if !isVar && e.pkg.Scope().Lookup(id.Name) == nil {
			if p := e.importNamed(id.Name); p != nil {
				o := p.Scope().Lookup(n.Sel.Name)
				if o == nil {
					// maybe a spec func / ghost in that package handled by evalCall
					if g := e.x.ghost(p.Path(), n.Sel.Name); g != nil {
						return e.st.load(e.x, g.ptr)
					}
					efail("unknown %s.%s", id.Name, n.Sel.Name)
				}
				return e.objValue(o, hint)
			}
		}
	}
	v := e.eval(n.X, nil)
	return e.selectField(v, n.Sel.Name)
}

// selectField implements v.f with implicit dereference and embedded-field promotion.
func (e *Env) selectField(v SV, name string) SV {
	ty := v.ty
	if p, ok := ty.Underlying().(*types.Pointer); ok {
		st, ok := p.Elem().Underlying().(*types.Struct)
		if !ok {
			efail("selector .%s on pointer to non-struct %s", name, typeKey(ty))
		}
		idx, path := findField(st, name)
		if idx < 0 && path == nil {
			efail("no field %s in %s", name, typeKey(p.Elem()))
		}
		cur := v
		for _, fi := range path {
			cur = fieldAddr(cur, fi)
			// embedded pointer: load and continue
			ft := derefType(cur.ty)
			if _, isPtr := ft.Underlying().(*types.Pointer); isPtr && fi != path[len(path)-1] {
				cur = e.st.load(e.x, cur)
			}
		}
		return e.st.load(e.x, cur)
	}
	st, ok := ty.Underlying().(*types.Struct)
	if !ok {
		efail("selector .%s on non-struct %s", name, typeKey(ty))
	}
	_, path := findField(st, name)
	if path == nil {
		efail("no field %s in %s", name, typeKey(ty))
	}
	cur := v
	for k, fi := range path {
		cst := cur.ty.Underlying().(*types.Struct)
		s, en := fieldRange(cst, fi)
		cur = SV{ty: cst.Field(fi).Type(), l: cur.l[s:en]}
		if _, isPtr := cur.ty.Underlying().(*types.Pointer); isPtr && k != len(path)-1 {
			return e.selectField(cur, name)
		}
	}
	return cur
}

// findField returns the index path to a (possibly promoted) field.
func findField(st *types.Struct, name string) (int, []int) {
	for i := 0; i < st.NumFields(); i++ {
		if st.Field(i).Name() == name {
			return i, []int{i}
		}
	}
	for i := 0; i < st.NumFields(); i++ {
		f := st.Field(i)
		if !f.Embedded() {
			continue
		}
		ft := f.Type()
		if p, ok := ft.Underlying().(*types.Pointer); ok {
			ft = p.Elem()
		}
		if est, ok := ft.Underlying().(*types.Struct); ok {
			if _, sub := findField(est, name); sub != nil {
				return i, append([]int{i}, sub...)
			}
		}
	}
	return -1, nil
}

func fieldAddr(p SV, fi int) SV {
	pt := p.ty.Underlying().(*types.Pointer)
	st := pt.Elem().Underlying().(*types.Struct)
	info := p.p
	if info == nil {
		info = &PtrInfo{rootKey: typeKey(pt.Elem()), rootTy: pt.Elem()}
	}
	ni := &PtrInfo{rootKey: info.rootKey, rootTy: info.rootTy, backing: info.backing,
		steps: append(append([]Step{}, info.steps...), Step{field: fi})}
	return SV{ty: types.NewPointer(st.Field(fi).Type()), l: p.l, p: ni}
}

func (e *Env) evalAddr(x ast.Expr) SV {
	switch n := x.(type) {
	case *ast.ParenExpr:
		return e.evalAddr(n.X)
	case *ast.SelectorExpr:
		if g := e.ghostOf(n); g != nil {
			if g.isMap {
				return e.ghostMapEntry(g, zeroSV(g.keyT))
			}
			return g.ptr
		}
		base := e.eval(n.X, nil)
		if _, isPtr := base.ty.Underlying().(*types.Pointer); !isPtr {
			if _, isStruct := base.ty.Underlying().(*types.Struct); isStruct {
				// field of a struct that is itself addressable: &(x.a).b
				base = e.evalAddr(n.X)
			}
		}
		if p, ok := base.ty.Underlying().(*types.Pointer); ok {
			st := p.Elem().Underlying().(*types.Struct)
			_, path := findField(st, n.Sel.Name)
			if path == nil {
				efail("no field %s", n.Sel.Name)
			}
			cur := base
			for k, fi := range path {
				cur = fieldAddr(cur, fi)
				if k != len(path)-1 {
					if _, isPtr := derefType(cur.ty).Underlying().(*types.Pointer); isPtr {
						cur = e.st.load(e.x, cur)
					}
				}
			}
			return cur
		}
	case *ast.IndexExpr:
		if g := e.ghostOf(n.X); g != nil && g.isMap {
			return e.ghostMapEntry(g, e.eval(n.Index, g.keyT))
		}
		base := e.eval(n.X, nil)
		idx := e.eval(n.Index, types.Typ[types.Int])
		if _, ok := base.ty.Underlying().(*types.Slice); ok {
			return sliceElemAddr(base, toI64(idx))
		}
	case *ast.Ident:
		if o := e.pkg.Scope().Lookup(n.Name); o != nil {
			if v, ok := o.(*types.Var); ok {
				return globalPtr(v)
			}
		}
		if g := e.x.ghost(e.pkg.Path(), n.Name); g != nil {
			if g.isMap {
				return e.ghostMapEntry(g, zeroSV(g.keyT))
			}
			return g.ptr
		}
	}
	efail("cannot take address of %s", exprStr(x))
	return SV{}
}

func toI64(v SV) *Term {
	t := v.t()
	if t.sort.bv == 64 {
		return t
	}
	if isSigned(v.ty) {
		return SExt(t, 64)
	}
	return ZExt(t, 64)
}

func sliceElemAddr(s SV, idx *Term) SV {
	et := elemType(s.ty)
	if s.p != nil {
		ni := &PtrInfo{rootKey: s.p.rootKey, rootTy: s.p.rootTy, backing: s.p.backing,
			steps: append(append([]Step{}, s.p.steps...), Step{field: -1, idx: BvBin("bvadd", s.l[1], idx)})}
		return SV{ty: types.NewPointer(et), l: []*Term{s.l[0]}, p: ni}
	}
	ni := &PtrInfo{rootKey: "[]" + typeKey(et), rootTy: et, backing: true,
		steps: []Step{{field: -1, idx: BvBin("bvadd", s.l[1], idx), lo: s.l[1], n: s.l[2]}}}
	return SV{ty: types.NewPointer(et), l: []*Term{s.l[0]}, p: ni}
}

func (e *Env) evalIndex(n *ast.IndexExpr) SV {
	// old(m)[k]: the entry-state value of ghost map m at a key evaluated in the current state
	if call, ok := n.X.(*ast.CallExpr); ok && len(call.Args) == 1 {
		if id, ok := call.Fun.(*ast.Ident); ok && id.Name == "old" {
			if g := e.ghostOf(call.Args[0]); g != nil && g.isMap {
				if e.oldSt == nil {
					efail("old() has no meaning here")
				}
				k := e.eval(n.Index, g.keyT)
				if len(k.l) != len(leavesOf(g.keyT)) {
					efail("ghost map key shape mismatch")
				}
				return e.oldSt.load(e.x, e.ghostMapEntry(g, k))
			}
		}
	}
	if g := e.ghostOf(n.X); g != nil && g.isMap {
		k := e.eval(n.Index, g.keyT)
		if len(k.l) != len(leavesOf(g.keyT)) {
			efail("ghost map key shape mismatch")
		}
		return e.st.load(e.x, e.ghostMapEntry(g, k))
	}
	base := e.eval(n.X, nil)
	switch u := base.ty.Underlying().(type) {
	case *types.Slice:
		idx := e.eval(n.Index, types.Typ[types.Int])
		if base.contents != nil {
			at := BvBin("bvadd", base.l[1], toI64(idx))
			out := make([]*Term, len(base.contents))
			for k, c := range base.contents {
				out[k] = Select(c, at)
			}
			return SV{ty: u.Elem(), l: out}
		}
		return e.st.load(e.x, sliceElemAddr(base, toI64(idx)))
	case *types.Array:
		idx := e.eval(n.Index, types.Typ[types.Int])
		return arrayIndex(base, toI64(idx))
	case *types.Pointer:
		if _, ok := u.Elem().Underlying().(*types.Array); ok {
			arr := e.st.load(e.x, base)
			idx := e.eval(n.Index, types.Typ[types.Int])
			return arrayIndex(arr, toI64(idx))
		}
	case *types.Map:
		k := e.eval(n.Index, u.Key())
		v, _ := e.st.mapLookup(e.x, base, k)
		return v
	}
	efail("cannot index %s", typeKey(base.ty))
	return SV{}
}

func arrayIndex(a SV, idx *Term) SV {
	et := elemType(a.ty)
	out := make([]*Term, len(a.l))
	for i, l := range a.l {
		out[i] = Select(l, idx)
	}
	return SV{ty: et, l: out}
}

func (e *Env) evalSlice(n *ast.SliceExpr) SV {
	base := e.eval(n.X, nil)
	if _, ok := base.ty.Underlying().(*types.Slice); !ok {
		efail("slice expression on %s", typeKey(base.ty))
	}
	lo := mkBV(0, 64)
	hi := base.l[2]
	if n.Low != nil {
		lo = toI64(e.eval(n.Low, types.Typ[types.Int]))
	}
	if n.High != nil {
		hi = toI64(e.eval(n.High, types.Typ[types.Int]))
	}
	return SV{ty: base.ty, l: []*Term{base.l[0], BvBin("bvadd", base.l[1], lo), BvBin("bvsub", hi, lo), BvBin("bvsub", base.l[3], lo)}, p: base.p, contents: base.contents}
}

func (e *Env) evalBinary(n *ast.BinaryExpr, hint types.Type) SV {
	boolT := types.Typ[types.Bool]
	switch n.Op {
	case token.LAND:
		a := e.eval(n.X, boolT)
		b := e.eval(n.Y, boolT)
		return scalarSV(boolT, And(a.t(), b.t()))
	case token.LOR:
		a := e.eval(n.X, boolT)
		b := e.eval(n.Y, boolT)
		return scalarSV(boolT, Or(a.t(), b.t()))
	}
	var a, b SV
	isCmp := n.Op == token.EQL || n.Op == token.NEQ || n.Op == token.LSS || n.Op == token.LEQ || n.Op == token.GTR || n.Op == token.GEQ
	opHint := hint
	if isCmp {
		opHint = nil
	}
	if n.Op == token.SHL || n.Op == token.SHR {
		a = e.eval(n.X, hint)
		b = e.eval(n.Y, types.Typ[types.Uint])
		return scalarSV(a.ty, shiftTerm(n.Op == token.SHL, a, b))
	}
	if isUntypedConst(n.X) && !isUntypedConst(n.Y) {
		b = e.eval(n.Y, opHint)
		a = e.eval(n.X, b.ty)
	} else {
		a = e.eval(n.X, opHint)
		b = e.eval(n.Y, a.ty)
	}
	if isCmp {
		if n.Op == token.EQL || n.Op == token.NEQ {
			if len(a.l) != len(b.l) {
				efail("comparison of different shapes: %s (%s) vs %s (%s)", exprStr(n.X), typeKey(a.ty), exprStr(n.Y), typeKey(b.ty))
			}
			for i := range a.l {
				if a.l[i].sort != b.l[i].sort {
					efail("comparison sort mismatch in %s: %s vs %s", exprStr(n), typeKey(a.ty), typeKey(b.ty))
				}
			}
			t := eqSV(a, b)
			if n.Op == token.NEQ {
				t = Not(t)
			}
			return scalarSV(boolT, t)
		}
		if a.t().sort != b.t().sort {
			efail("comparison sort mismatch in %s: %s vs %s", exprStr(n), typeKey(a.ty), typeKey(b.ty))
		}
		sg := isSigned(a.ty)
		var op string
		switch n.Op {
		case token.LSS:
			op = "bvult"
		case token.LEQ:
			op = "bvule"
		case token.GTR:
			op = "bvugt"
		case token.GEQ:
			op = "bvuge"
		}
		if sg {
			op = "bvs" + op[3:]
		}
		return scalarSV(boolT, BvCmp(op, a.t(), b.t()))
	}
	if a.t().sort != b.t().sort {
		efail("operand sort mismatch in %s: %s vs %s", exprStr(n), typeKey(a.ty), typeKey(b.ty))
	}
	if a.t().sort == BoolS {
		efail("arithmetic on bool in %s", exprStr(n))
	}
	sg := isSigned(a.ty)
	var op string
	switch n.Op {
	case token.ADD:
		op = "bvadd"
	case token.SUB:
		op = "bvsub"
	case token.MUL:
		op = "bvmul"
	case token.QUO:
		op = "bvudiv"
		if sg {
			op = "bvsdiv"
		}
	case token.REM:
		op = "bvurem"
		if sg {
			op = "bvsrem"
		}
	case token.AND:
		op = "bvand"
	case token.OR:
		op = "bvor"
	case token.XOR:
		op = "bvxor"
	case token.AND_NOT:
		return scalarSV(a.ty, BvBin("bvand", a.t(), BvNot(b.t())))
	default:
		efail("unsupported operator %s", n.Op)
	}
	return scalarSV(a.ty, BvBin(op, a.t(), b.t()))
}

func shiftTerm(left bool, a, b SV) *Term {
	w := a.t().sort.bv
	bt := b.t()
	// Go: shift count >= width yields 0 (or sign fill); SMT bvshl semantics agree when the
	// count is zero-extended to the operand width, but truncation must saturate.
	var cnt *Term
	if bt.sort.bv <= w {
		cnt = ZExt(bt, w)
	} else {
		big := BvCmp("bvuge", bt, mkBV(int64(w), bt.sort.bv))
		cnt = Ite(big, mkBV(int64(w), w), Extract(w-1, 0, bt))
	}
	if left {
		return BvBin("bvshl", a.t(), cnt)
	}
	if isSigned(a.ty) {
		return BvBin("bvashr", a.t(), cnt)
	}
	return BvBin("bvlshr", a.t(), cnt)
}

func convertInt(v SV, to types.Type) SV {
	ts := scalarSort(to)
	if ts == nil || ts.bv == 0 || v.t().sort.bv == 0 {
		efail("unsupported conversion %s -> %s", typeKey(v.ty), typeKey(to))
	}
	var t *Term
	if ts.bv <= v.t().sort.bv {
		t = Extract(ts.bv-1, 0, v.t())
	} else if isSigned(v.ty) {
		t = SExt(v.t(), ts.bv)
	} else {
		t = ZExt(v.t(), ts.bv)
	}
	return scalarSV(to, t)
}

func (e *Env) evalCall(n *ast.CallExpr, hint types.Type) SV {
	// conversions
	if ty, ok := e.isTypeExpr(n.Fun); ok && len(n.Args) == 1 {
		v := e.eval(n.Args[0], ty)
		if types.Identical(v.ty.Underlying(), ty.Underlying()) || (scalarSort(ty) != nil && len(v.l) == 1 && scalarSort(ty) == v.l[0].sort && !isInt(ty)) {
			return SV{ty: ty, l: v.l, p: v.p}
		}
		if isInt(ty) && isInt(v.ty) {
			return convertInt(v, ty)
		}
		if len(leavesOf(ty)) == len(v.l) {
			return SV{ty: ty, l: v.l, p: v.p}
		}
		efail("unsupported conversion to %s", typeKey(ty))
	}
	name := ""
	var qualPkg *types.Package
	switch f := n.Fun.(type) {
	case *ast.Ident:
		name = f.Name
	case *ast.SelectorExpr:
		if id, ok := f.X.(*ast.Ident); ok {
			if p := e.importNamed(id.Name); p != nil {
				if _, isVar := e.vars[id.Name]; !isVar {
					qualPkg = p
					name = f.Sel.Name
				}
			}
		}
	}
	boolT := types.Typ[types.Bool]
	if qualPkg == nil {
		switch name {
		case "old":
			if e.oldSt == nil {
				return e.eval(n.Args[0], hint)
			}
			ne := *e
			ne.st = e.oldSt
			return ne.eval(n.Args[0], hint)
		case "atwait":
			// the state in which the calling critical section started: right after the most recent
			// sync.Cond.Wait, or at function entry if the function has not waited
			ws := e.oldSt
			if e.st != nil && e.st.waitSt != nil {
				ws = e.st.waitSt
			}
			if ws == nil {
				return e.eval(n.Args[0], hint)
			}
			ne := *e
			ne.st = ws
			return ne.eval(n.Args[0], hint)
		case "implies_":
			a := e.eval(n.Args[0], boolT)
			b := e.eval(n.Args[1], boolT)
			return scalarSV(boolT, Implies(a.t(), b.t()))
		case "ite":
			c := e.eval(n.Args[0], boolT)
			var a, b SV
			if isUntypedConst(n.Args[1]) && !isUntypedConst(n.Args[2]) {
				b = e.eval(n.Args[2], hint)
				a = e.eval(n.Args[1], b.ty)
			} else {
				a = e.eval(n.Args[1], hint)
				b = e.eval(n.Args[2], a.ty)
			}
			return iteSV(c.t(), a, b)
		case "forall_", "exists_":
			fl, ok := n.Args[0].(*ast.FuncLit)
			if !ok {
				efail("bad quantifier")
			}
			ne := e.child()
			var bvs []*Term
			for _, fld := range fl.Type.Params.List {
				ty := e.resolveType(fld.Type)
				s := scalarSort(ty)
				if s == nil {
					efail("quantified variable must be scalar")
				}
				for _, nm := range fld.Names {
					bv := mkBound(freshName(nm.Name), s)
					bvs = append(bvs, bv)
					ne.vars[nm.Name] = scalarSV(ty, bv)
				}
			}
			ret := fl.Body.List[0].(*ast.ReturnStmt)
			body := ne.eval(ret.Results[0], boolT)
			if name == "forall_" {
				return scalarSV(boolT, Forall(bvs, body.t()))
			}
			return scalarSV(boolT, Exists(bvs, body.t()))
		case "len":
			v := e.eval(n.Args[0], nil)
			intT := types.Typ[types.Int]
			switch u := v.ty.Underlying().(type) {
			case *types.Slice:
				return scalarSV(intT, v.l[2])
			case *types.Array:
				return scalarSV(intT, mkBV(u.Len(), 64))
			case *types.Basic:
				return scalarSV(intT, strLen(v.t()))
			case *types.Map:
				return scalarSV(intT, e.st.mapLen(e.x, v))
			case *types.Pointer:
				if a, ok := u.Elem().Underlying().(*types.Array); ok {
					return scalarSV(intT, mkBV(a.Len(), 64))
				}
			}
			efail("len of %s", typeKey(v.ty))
		case "cap":
			v := e.eval(n.Args[0], nil)
			if _, ok := v.ty.Underlying().(*types.Slice); ok {
				return scalarSV(types.Typ[types.Int], v.l[3])
			}
			efail("cap of %s", typeKey(v.ty))
		case "min", "max":
			a := e.eval(n.Args[0], hint)
			b := e.eval(n.Args[1], a.ty)
			op := "bvult"
			if isSigned(a.ty) {
				op = "bvslt"
			}
			c := BvCmp(op, a.t(), b.t())
			if name == "max" {
				c = Not(c)
			}
			return scalarSV(a.ty, Ite(c, a.t(), b.t()))
		case "arrUpd", "arrSame":
			// arrUpd(s, off, v0, v1, ...): the whole backing array of slice s equals its old value with
			// v_k stored at element off+k of s; arrSame(s): the backing array is unchanged. Quantifier-free.
			sl := e.eval(n.Args[0], nil)
			if _, ok := sl.ty.Underlying().(*types.Slice); !ok {
				efail("%s: first argument must be a slice", name)
			}
			et := elemType(sl.ty)
			if len(leavesOf(et)) != 1 {
				efail("%s: only slices of scalars are supported", name)
			}
			li := resolveLoc(sliceElemAddr(sl, mkBV(0, 64)))
			if !li.backing || len(li.idxs) != 1 {
				efail("%s: slice must have a plain backing array", name)
			}
			old := e.st
			if e.oldSt != nil {
				old = e.oldSt
			}
			key, srt := li.key(li.lo), li.regionSort(li.lo)
			now := Select(e.st.region(key, srt), sl.l[0])
			want := Select(old.region(key, srt), sl.l[0])
			if name == "arrUpd" {
				off := toI64(e.eval(n.Args[1], types.Typ[types.Int]))
				k := 0
				for _, a := range n.Args[2:] {
					if ce, ok := a.(*ast.CallExpr); ok {
						if id, ok := ce.Fun.(*ast.Ident); ok && id.Name == "at" && len(ce.Args) == 1 {
							// at(off): continue storing at a new offset
							off = toI64(e.eval(ce.Args[0], types.Typ[types.Int]))
							k = 0
							continue
						}
					}
					v := e.eval(a, et)
					if v.t().sort != srt.elem.elem {
						efail("arrUpd: value %d has the wrong type", k)
					}
					want = Store(want, BvBin("bvadd", BvBin("bvadd", sl.l[1], off), mkBV(int64(k), 64)), v.t())
					k++
				}
			}
			return scalarSV(boolT, ArrEq(now, want))
		case "visited": // visited(k): key k was already produced by the enclosing range-over-map loop
			if e.visited == nil {
				efail("visited() outside a loop invariant")
			}
			vis, kt := e.visited()
			if vis == nil {
				efail("visited(): no map iterator in this loop")
			}
			k := e.eval(n.Args[0], kt)
			return scalarSV(boolT, Select(vis, keyTerm(k)))
		case "sameArray": // sameArray(s1, s2): the two slices share their backing array
			a := e.eval(n.Args[0], nil)
			b := e.eval(n.Args[1], nil)
			return scalarSV(boolT, Eq(a.l[0], b.l[0]))
		case "fresh": // fresh(x): the object x refers to was allocated during this call (postconditions only)
			a := e.eval(n.Args[0], nil)
			if e.assumeFresh {
				return scalarSV(boolT, Eq(a.l[0], e.x.freshRef(e.st)))
			}
			return scalarSV(boolT, BvCmp("bvuge", a.l[0], mkBVu(0x80000000, 32)))
		case "typeis": // typeis(ifaceValue, T): dynamic type test
			v := e.eval(n.Args[0], nil)
			ty := e.resolveType(n.Args[1])
			return scalarSV(boolT, Eq(v.l[0], e.x.typeTag(ty)))
		case "asptr": // asptr(ifaceValue, *T): payload as pointer
			v := e.eval(n.Args[0], nil)
			ty := e.resolveType(n.Args[1])
			return scalarSV(ty, Extract(31, 0, v.l[1]))
		case "inmap": // inmap(m, k)
			m := e.eval(n.Args[0], nil)
			mt := m.ty.Underlying().(*types.Map)
			k := e.eval(n.Args[1], mt.Key())
			_, ok := e.st.mapLookup(e.x, m, k)
			return scalarSV(boolT, ok)
		case "nooverflow_add": // signed add does not overflow
			a := e.eval(n.Args[0], nil)
			b := e.eval(n.Args[1], a.ty)
			w := a.t().sort.bv
			s := BvBin("bvadd", SExt(a.t(), w+1), SExt(b.t(), w+1))
			return scalarSV(boolT, Eq(s, SExt(BvBin("bvadd", a.t(), b.t()), w+1)))
		}
	}
	// spec function
	pk := e.pkg.Path()
	if qualPkg != nil {
		pk = qualPkg.Path()
	}
	if sf := e.x.specFunc(pk, name); sf != nil {
		d := e.x.declSpec(sf)
		if sf.opaque && e.x.tcontract != nil && contains(e.x.tcontract.reveals, name) && len(n.Args) == len(sf.ptypes) {
			// revealed: evaluate the body in place
			tp := e.x.typesPkg(sf.pkg)
			ne := &Env{x: e.x, pkg: tp, vars: map[string]SV{}, inSpec: true}
			ai := 0
			for _, f := range sf.params {
				for _, nm := range f.Names {
					ne.vars[nm.Name] = e.eval(n.Args[ai], sf.ptypes[ai])
					ai++
				}
			}
			return ne.eval(sf.body, sf.rtype)
		}
		var args []*Term
		ai := 0
		for i, pt := range sf.ptypes {
			_ = i
			if ai >= len(n.Args) {
				efail("too few arguments to %s", name)
			}
			v := e.eval(n.Args[ai], pt)
			ai++
			if es := seqElemSorts(pt); es != nil {
				if _, ok := v.ty.Underlying().(*types.Slice); !ok || len(v.l) != 4 {
					efail("argument %d of %s must be a slice", i, name)
				}
				cs := v.contents
				if cs == nil {
					st := e.st
					if ce, ok := n.Args[ai-1].(*ast.CallExpr); ok {
						if id, ok := ce.Fun.(*ast.Ident); ok && id.Name == "old" && e.oldSt != nil {
							st = e.oldSt
						}
					}
					li := resolveLoc(sliceElemAddr(v, mkBV(0, 64)))
					if !li.backing || len(li.idxs) != 1 || li.hi-li.lo != len(es) {
						efail("argument %d of %s: slice must have a plain backing array", i, name)
					}
					for k := li.lo; k < li.hi; k++ {
						cs = append(cs, Select(st.region(li.key(k), li.regionSort(k)), v.l[0]))
					}
				}
				args = append(args, cs...)
				args = append(args, v.l[1], v.l[2])
				continue
			}
			if len(v.l) != len(leavesOf(pt)) {
				efail("argument %d of %s: shape mismatch (%s vs %s)", i, name, typeKey(v.ty), typeKey(pt))
			}
			for k, l := range v.l {
				if l.sort != leavesOf(pt)[k].sort {
					efail("argument %d of %s: sort mismatch %s vs %s", i, name, typeKey(v.ty), typeKey(pt))
				}
			}
			if _, isPtr := pt.Underlying().(*types.Pointer); isPtr && len(v.l) == 1 && v.p != nil && len(v.p.steps) > 0 {
				// an interior pointer (&s[i].f): its identity is the base reference together with the path;
				// passing the base alone would identify &a[0].x and &a[1].x
				args = append(args, interiorPtrTerm(v))
				continue
			}
			args = append(args, v.l...)
		}
		if ai != len(n.Args) {
			efail("too many arguments to %s", name)
		}
		if len(sf.multi) > 0 {
			out := make([]*Term, len(sf.multi))
			for k, dk := range sf.multi {
				out[k] = App(dk, args...)
			}
			return SV{ty: sf.rtype, l: out}
		}
		if len(leavesOf(sf.rtype)) != 1 {
			efail("spec func %s must return a scalar", name)
		}
		return scalarSV(sf.rtype, App(d, args...))
	}
	efail("unknown function %s in contract expression", exprStr(n.Fun))
	return SV{}
}

// declSpec declares (and defines) a spec function as a UF.
func (x *Exec) declSpec(sf *SpecFunc) *UFDecl {
	if sf.decl != nil {
		return sf.decl
	}
	tp := x.typesPkg(sf.pkg)
	env := &Env{x: x, pkg: tp, vars: map[string]SV{}, inSpec: true}
	var sorts []*Sort
	var prm []*Term
	for _, f := range sf.params {
		ty := env.resolveType(f.Type)
		for _, nm := range f.Names {
			sf.ptypes = append(sf.ptypes, ty)
			if es := seqElemSorts(ty); es != nil {
				// slice passed by contents (one array per element leaf, offset, length)
				nmS := fmt.Sprintf("%s!%s", sf.name, nm.Name)
				var cs []*Term
				for k, srt := range es {
					c := mkBound(fmt.Sprintf("%s.content%d", nmS, k), ArrS(I64, srt))
					cs = append(cs, c)
					sorts = append(sorts, c.sort)
					prm = append(prm, c)
				}
				o := mkBound(nmS+".off", I64)
				ln := mkBound(nmS+".len", I64)
				sorts = append(sorts, I64, I64)
				prm = append(prm, o, ln)
				env.vars[nm.Name] = SV{ty: ty, l: []*Term{mkBV(0, 32), o, ln, ln}, contents: cs}
				continue
			}
			ls := leavesOf(ty)
			out := make([]*Term, len(ls))
			for i, l := range ls {
				b := mkBound(fmt.Sprintf("%s!%s%s", sf.name, nm.Name, strings.ReplaceAll(l.path, "[]", "_")), l.sort)
				out[i] = b
				sorts = append(sorts, l.sort)
				prm = append(prm, b)
			}
			env.vars[nm.Name] = SV{ty: ty, l: out}
		}
	}
	sf.rtype = env.resolveType(sf.result)
	rs := scalarSort(sf.rtype)
	if rs == nil && sf.body == nil {
		// uninterpreted function with a structured result (an interface value, a small struct): one
		// uninterpreted function per leaf
		ls := leavesOf(sf.rtype)
		if len(ls) == 0 {
			efail("spec func %s: unsupported result type", sf.name)
		}
		for k, l := range ls {
			dk := declUF(fmt.Sprintf("spec.%s.%s#%d", shortPkg(sf.pkg), sf.name, k), sorts, l.sort)
			ufOrd++
			dk.ord = ufOrd
			dk.prm = prm
			sf.multi = append(sf.multi, dk)
		}
		sf.decl = sf.multi[0]
		return sf.decl
	}
	if rs == nil {
		efail("spec func %s: result must be scalar", sf.name)
	}
	d := declUF("spec."+shortPkg(sf.pkg)+"."+sf.name, sorts, rs)
	sf.decl = d
	defer func() { ufOrd++; d.ord = ufOrd }()
	d.prm = prm
	d.rec = sf.rec
	if sf.body != nil && !sf.opaque {
		v := env.eval(sf.body, sf.rtype)
		if v.t().sort != rs {
			efail("spec func %s: body sort %s, want %s", sf.name, v.t().sort.s, rs.s)
		}
		d.def = v.t()
	}
	return d
}

func shortPkg(p string) string {
	p = strings.TrimPrefix(p, "github.com/scionproto/scion/")
	return strings.ReplaceAll(p, "/", "_")
}

// ghostMapEntry returns a pointer to entry k of a ghost (total) map.
func (e *Env) ghostMapEntry(g *ghostInfo, k SV) SV {
	ks := keySort(g.keyT)
	return SV{ty: types.NewPointer(g.valT), l: []*Term{mkBV(1, 32)},
		p: &PtrInfo{rootKey: g.key, rootTy: g.valT, backing: true, idxSort: ks, steps: []Step{{field: -1, idx: keyTerm(k)}}}}
}

func (e *Env) ghostOf(x ast.Expr) *ghostInfo {
	switch n := x.(type) {
	case *ast.Ident:
		if _, isVar := e.vars[n.Name]; isVar {
			return nil
		}
		return e.x.ghost(e.pkg.Path(), n.Name)
	case *ast.SelectorExpr:
		if id, ok := n.X.(*ast.Ident); ok {
			if _, isVar := e.vars[id.Name]; !isVar {
				if p := e.importNamed(id.Name); p != nil {
					return e.x.ghost(p.Path(), n.Sel.Name)
				}
			}
		}
	}
	return nil
}

// seqElemSorts returns the leaf sorts of the element type if ty is a slice whose elements
// consist of scalar leaves only (no nested arrays).
func seqElemSorts(ty types.Type) []*Sort {
	sl, ok := ty.Underlying().(*types.Slice)
	if !ok {
		return nil
	}
	var out []*Sort
	for _, l := range leavesOf(sl.Elem()) {
		if l.sort.idx != nil {
			return nil
		}
		out = append(out, l.sort)
	}
	if len(out) == 0 {
		return nil
	}
	return out
}

// interiorPtrTerm gives an interior pointer a term of its own: uninterpreted functions of the base
// reference and each step of the path (equal paths give equal terms; different paths are not forced apart).
func interiorPtrTerm(v SV) *Term {
	t := v.l[0]
	fld := declUF("iptr.field", []*Sort{RefS, I64}, RefS)
	idx := declUF("iptr.index", []*Sort{RefS, I64}, RefS)
	for _, s := range v.p.steps {
		if s.field >= 0 {
			t = App(fld, t, mkBV(int64(s.field), 64))
		} else {
			t = App(idx, t, s.idx)
		}
	}
	return t
}
