package main

import (
	"context"
	"os/exec"
	"regexp"
	"go/types"
	"encoding/json"
	"flag"
	"fmt"
	"go/ast"
	"os"
	"path/filepath"
	"sort"
	"strconv"
	"strings"
	"time"

	"golang.org/x/tools/go/packages"
	"golang.org/x/tools/go/ssa"
	"golang.org/x/tools/go/ssa/ssautil"
)

type PropCfg struct {
	Packages    []string `json:"packages"`
	Level       string   `json:"level"`
	Assumptions []string `json:"assumptions"`
	NotCovered  []string `json:"not_covered"`
	MinObl      int      `json:"min_obligations"`
	Bounded     []string `json:"bounded"`
	Extra       []string `json:"extra_cmds"` // additional labelled bounded stand-ins (never counted as proved)
	Replay      map[string]string `json:"replay"`
}

type Finding struct {
	Property   string `json:"property"`
	Obligation string `json:"obligation"`
	Status     string `json:"status"` // known | fixed
	What       string `json:"what"`
	Witness    string `json:"witness"` // predicate over the function's inputs describing the failing class
	Commit     string `json:"commit,omitempty"`
}

const repoDir = "/repo"

var verifDir = "/verif"

func loadProgram(patterns []string, overlay map[string][]byte) (*Exec, error) {
	env := append(os.Environ(), "GOFLAGS=-mod=mod", "GOPROXY=off", "GOSUMDB=off", "GOTOOLCHAIN=local")
	cfg := &packages.Config{
		Mode: packages.NeedName | packages.NeedFiles | packages.NeedCompiledGoFiles | packages.NeedImports |
			packages.NeedTypes | packages.NeedTypesSizes | packages.NeedSyntax | packages.NeedTypesInfo | packages.NeedDeps,
		Dir:        repoDir,
		BuildFlags: []string{"-tags=verif"},
		Env:        env,
		Overlay:    overlay,
	}
	pats := append([]string{}, patterns...)
	pats = append(pats, "encoding/binary", "math/bits")
	pkgs, err := packages.Load(cfg, pats...)
	if err != nil {
		return nil, err
	}
	var errs []string
	packages.Visit(pkgs, nil, func(p *packages.Package) {
		for _, e := range p.Errors {
			errs = append(errs, e.Error())
		}
	})
	if len(errs) > 0 {
		return nil, fmt.Errorf("package errors:\n%s", strings.Join(errs, "\n"))
	}
	prog, spkgs := ssautil.AllPackages(pkgs, ssa.GlobalDebug|ssa.InstantiateGenerics)
	_ = spkgs
	x := &Exec{prog: prog, pkgs: pkgs, spkgs: map[string]*ssa.Package{}, tpkgs: map[string]*types_Package{},
		contracts: map[string]*PkgContracts{}, srcLines: map[string][]string{},
		obligs: map[string]*Oblig{}, notes: map[string]bool{}, inlined: map[string]bool{}, modular: map[string]bool{},
		havocked: map[string]bool{}, modelled: map[string]bool{}, funcIDs: map[string]int{}, typeIDs: map[string]int{}, ghosts: map[string]*ghostInfo{},
		witness: map[string]ast.Expr{}, errGlobals: map[string]int{}}
	if len(pkgs) > 0 {
		x.fset = pkgs[0].Fset
	}
	roots := map[string]bool{}
	for _, p := range pkgs {
		roots[p.PkgPath] = true
	}
	packages.Visit(pkgs, nil, func(p *packages.Package) {
		if p.Types != nil {
			x.tpkgs[p.PkgPath] = p.Types
		}
		if sp := prog.Package(p.Types); sp != nil {
			x.spkgs[p.PkgPath] = sp
			if roots[p.PkgPath] {
				sp.Build()
			}
		}
	})
	// error sentinels: globals assigned exactly once, in init, from an error constructor
	for _, sp := range x.spkgs {
		initFn := sp.Func("init")
		if initFn == nil {
			continue
		}
		for _, b := range initFn.Blocks {
			for _, ins := range b.Instrs {
				stI, ok := ins.(*ssa.Store)
				if !ok {
					continue
				}
				g, ok := stI.Addr.(*ssa.Global)
				if !ok {
					continue
				}
				call, ok := stI.Val.(*ssa.Call)
				if !ok {
					continue
				}
				cal := call.Common().StaticCallee()
				if cal == nil {
					continue
				}
				switch cal.String() {
				case "errors.New", "fmt.Errorf", "github.com/scionproto/scion/pkg/private/serrors.New":
					key := "G:" + g.Pkg.Pkg.Path() + "." + g.Name()
					if _, dup := x.errGlobals[key]; !dup {
						x.errGlobals[key] = len(x.errGlobals) + 1
					}
				}
			}
		}
	}
	// library globals known to hold a non-nil value assigned once at initialisation
	for _, k := range []string{"G:github.com/gopacket/gopacket.NilDecodeFeedback",
		"G:github.com/scionproto/scion/pkg/slayers.LayerClassHopByHopExtn",
		"G:github.com/scionproto/scion/pkg/slayers.LayerClassEndToEndExtn"} {
		x.errGlobals[k] = len(x.errGlobals) + 1
	}
	// contracts: every loaded root package with a zz_verif_contracts*.go file
	for _, p := range pkgs {
		for _, f := range p.CompiledGoFiles {
			if strings.HasPrefix(filepath.Base(f), "zz_verif_contracts") {
				pc := x.contracts[p.PkgPath]
				if pc == nil {
					pc = &PkgContracts{pkg: p.PkgPath, funcs: map[string]*FuncContract{}, ifaces: map[string]*FuncContract{}, imports: map[string]string{}, macros: map[string]*Macro{}, chans: map[string]*Clause{}}
					x.contracts[p.PkgPath] = pc
				}
				src, ok := overlay[f]
				if !ok {
					src, err = os.ReadFile(f)
					if err != nil {
						return nil, err
					}
				}
				if err := ParseContractFile(p.PkgPath, f, src, pc); err != nil {
					return nil, err
				}
			}
		}
	}
	return x, nil
}

func (x *Exec) findFunc(pkgPath, rel string) *ssa.Function {
	sp := x.spkgs[pkgPath]
	if sp == nil {
		return nil
	}
	sp.Build()
	var found *ssa.Function
	for fn := range ssautil.AllFunctions(x.prog) {
		if fn.Pkg == sp && fn.RelString(sp.Pkg) == rel {
			found = fn
			break
		}
	}
	if found == nil && strings.HasPrefix(rel, "(") {
		// a method that AllFunctions did not reach: look it up through the method set of its receiver type
		i := strings.Index(rel, ").")
		if i > 0 {
			recv, mname := rel[1:i], rel[i+2:]
			ptr := strings.HasPrefix(recv, "*")
			recv = strings.TrimPrefix(recv, "*")
			if tm := sp.Type(recv); tm != nil {
				var t types.Type = tm.Type()
				if ptr {
					t = types.NewPointer(t)
				}
				if sel := x.prog.MethodSets.MethodSet(t).Lookup(sp.Pkg, mname); sel != nil {
					found = x.prog.MethodValue(sel)
				}
			}
		}
	}
	return found
}

type Evidence struct {
	PropertyID  string         `json:"property_id"`
	Tier        string         `json:"tier"`
	Seed        int            `json:"seed"`
	Level       string         `json:"level"`
	Coverage    map[string]any `json:"coverage"`
	Assumptions []string       `json:"assumptions"`
	WallS       float64        `json:"wall_s"`
	Violations  int            `json:"violations"`
}

func main() {
	if len(os.Args) < 2 {
		fmt.Fprintln(os.Stderr, "usage: gowp check|selftest ...")
		os.Exit(2)
	}
	switch os.Args[1] {
	case "check":
		os.Exit(cmdCheck(os.Args[2:]))
	case "warm":
		_, err := loadProgram(os.Args[2:], nil)
		if err != nil {
			fmt.Fprintln(os.Stderr, err)
			os.Exit(1)
		}
	default:
		fmt.Fprintln(os.Stderr, "unknown command")
		os.Exit(2)
	}
}

func readJSON(path string, v any) error {
	b, err := os.ReadFile(path)
	if err != nil {
		return err
	}
	return json.Unmarshal(b, v)
}

type checkOpts struct {
	prop     string
	tier     string
	verbose  bool
	overlay  map[string][]byte
	only     string
	keep     bool
	noEvidence bool
}

func cmdCheck(args []string) int {
	fs := flag.NewFlagSet("check", flag.ExitOnError)
	var o checkOpts
	fs.StringVar(&o.prop, "prop", "", "property id")
	fs.StringVar(&o.tier, "tier", "quick", "quick|thorough")
	fs.BoolVar(&o.verbose, "v", false, "verbose")
	fs.StringVar(&o.only, "only", "", "only functions whose name contains this")
	fs.BoolVar(&o.keep, "keep", false, "keep SMT files")
	fs.BoolVar(&o.noEvidence, "noev", false, "do not write the evidence file (runs against modified trees)")
	fs.StringVar(&verifDir, "verif", "/verif", "verif dir")
	fs.Parse(args)
	if t := os.Getenv("VERIF_TIER"); t != "" && o.tier == "quick" {
		o.tier = t
	}
	rc, _ := runCheck(o)
	return rc
}

type checkOutcome struct {
	results   []*SolveResult
	failed    []*SolveResult
	genErrors []string
}

func runCheck(o checkOpts) (int, *checkOutcome) {
	t0 := time.Now()
	seed, _ := strconv.Atoi(os.Getenv("VERIF_SEED"))
	props := map[string]*PropCfg{}
	if err := readJSON(filepath.Join(verifDir, "specs", "props.json"), &props); err != nil {
		fmt.Fprintln(os.Stderr, "props.json:", err)
		return 2, nil
	}
	cfg := props[o.prop]
	if cfg == nil {
		fmt.Fprintln(os.Stderr, "unknown property", o.prop)
		return 2, nil
	}
	var findings []Finding
	_ = readJSON(filepath.Join(verifDir, "known_findings.json"), &findings)

	x, err := loadProgram(cfg.Packages, o.overlay)
	out := &checkOutcome{}
	if err != nil {
		fmt.Fprintln(os.Stderr, "load error:", err)
		return 2, out
	}
	x.verbose = o.verbose
	// witness predicates of known findings
	known := map[string]*Finding{}
	for i := range findings {
		f := &findings[i]
		if f.Status == "known" {
			known[f.Obligation] = f
			if f.Witness != "" {
				e, err := parseSpecExpr(f.Witness)
				if err != nil {
					fmt.Fprintln(os.Stderr, "known_findings witness:", err)
					return 2, out
				}
				x.witness[f.Obligation] = e
			}
		}
	}
	// collect targets
	type target struct {
		pkg string
		c   *FuncContract
	}
	var targets []target
	var lemmas []*Lemma
	var pkgNames []string
	for p := range x.contracts {
		pkgNames = append(pkgNames, p)
	}
	sort.Strings(pkgNames)
	for _, p := range pkgNames {
		pc := x.contracts[p]
		var names []string
		for n := range pc.funcs {
			names = append(names, n)
		}
		sort.Strings(names)
		for _, n := range names {
			c := pc.funcs[n]
			if contains(c.props, o.prop) && !c.trusted && !c.noverify {
				if o.only == "" || strings.Contains(n, o.only) {
					targets = append(targets, target{p, c})
				}
			}
		}
		for _, l := range pc.lemmas {
			if contains(l.props, o.prop) && (o.only == "" || strings.Contains(l.name, o.only)) {
				lemmas = append(lemmas, l)
			}
		}
	}
	var funcsUnder []string
	for _, t := range targets {
		fn := x.findFunc(t.pkg, t.c.name)
		if fn == nil {
			out.genErrors = append(out.genErrors, fmt.Sprintf("contract-target-missing: %s.%s", t.pkg, t.c.name))
			continue
		}
		funcsUnder = append(funcsUnder, shortPkg(t.pkg)+"."+t.c.name)
		if x.replayTargets == nil {
			x.replayTargets = map[string]replayTarget{}
		}
		x.replayTargets[fn.String()] = replayTarget{fn, t.c}
		tt := time.Now()
		if err := x.VerifyFunc(fn, t.c); err != nil {
			out.genErrors = append(out.genErrors, err.Error())
		}
		if o.verbose {
			fmt.Fprintf(os.Stderr, "  gen %s: %d paths, %v\n", t.c.name, x.paths, time.Since(tt))
		}
	}
	for _, l := range lemmas {
		if err := x.VerifyLemma(l); err != nil {
			out.genErrors = append(out.genErrors, err.Error())
		}
	}
	// discharge
	var obls []*Oblig
	for _, n := range x.oblOrder {
		obls = append(obls, x.obligs[n])
	}
	tmp, _ := os.MkdirTemp("", "gowp-"+o.prop+"-")
	if !o.keep {
		defer os.RemoveAll(tmp)
	} else {
		fmt.Fprintln(os.Stderr, "SMT files in", tmp)
	}
	timeout := 20
	unanimous := false
	if o.tier == "thorough" {
		timeout = 120
		unanimous = true
	}
	results := Discharge(obls, tmp, timeout, 12, unanimous)
	// second chance for obligations the solvers did not decide under full parallel load: run them again,
	// two at a time, with three times the time limit (an undecided obligation is not a refutation)
	var retryIdx []int
	var retryObl []*Oblig
	for i, r := range results {
		if r.Kind != "cover" && (r.Status == "timeout" || r.Status == "unknown") && len(obls[i].disj) > 0 {
			retryIdx = append(retryIdx, i)
			retryObl = append(retryObl, obls[i])
		}
	}
	if len(retryObl) > 0 && len(retryObl) <= 12 {
		tmp2, _ := os.MkdirTemp("", "gowp-retry-"+o.prop+"-")
		fullInstantiation = true
		rr := Discharge(retryObl, tmp2, timeout*3, 2, unanimous)
		fullInstantiation = false
		os.RemoveAll(tmp2)
		for k, i := range retryIdx {
			rr[k].Ms += results[i].Ms
			if rr[k].Status == "unsat" || rr[k].Status == "sat" {
				rr[k].Solver += " (retry)"
			}
			results[i] = rr[k]
		}
	}
	out.results = results

	// verdicts
	discharged, total := 0, 0
	violations := 0
	var samples []any
	var failedNames []string
	var solverMs int64
	var slowestMs int64 // slowest single solver query of this run (sums over paths are not single queries)
	slowestName := ""
	bySolver := map[string]int{}
	replayDir := filepath.Join(verifDir, "replays", o.prop)
	knownSeen := map[string]bool{}
	var knownGone []string
	var inconclusiveCovers []string
	var knownObls []any
	for i, r := range results {
		ob := obls[i]
		solverMs += r.Ms
		if q := maxI64(r.MaxMs, func() int64 {
			if strings.Contains(r.Solver, "per path") {
				return 0
			}
			return r.Ms
		}()); q > slowestMs && r.Kind != "cover" {
			slowestMs, slowestName = q, r.Name
		}
		ok := false
		if r.Kind == "cover" {
			// vacuity guard: only a definite "unsat" (contradictory precondition) is a failure; quantified
			// preconditions often make the satisfiability query undecidable for the solvers
			ok = r.Status != "unsat"
			if r.Status == "unsat" {
				r.Desc = "VACUOUS: precondition/assumptions unsatisfiable"
			} else if r.Status != "sat" {
				inconclusiveCovers = append(inconclusiveCovers, r.Name)
			}
		} else {
			ok = r.Status == "unsat" || r.Status == "trivial"
		}
		if kf, isK := known[r.Name]; isK && kf.Witness == "" {
			// known finding identified by its obligation (call site / clause): not counted, never an alarm
			if ok {
				knownGone = append(knownGone, r.Name)
			}
			knownObls = append(knownObls, map[string]any{"obligation": r.Name, "status": r.Status, "what": kf.What})
			continue
		}
		total++
		if ok {
			discharged++
			bySolver[r.Solver]++
		} else {
			out.failed = append(out.failed, r)
			failedNames = append(failedNames, r.Name)
			violations++
			os.MkdirAll(replayDir, 0o755)
			rp := filepath.Join(replayDir, sanitize(r.Name)+".json")
			rep := map[string]any{"property": o.prop, "obligation": r.Name, "kind": r.Kind, "function": r.Fn,
				"clause": ob.clause, "description": r.Desc, "position": r.Pos, "solver_status": r.Status,
				"solver": r.Solver, "solver_output": trunc(r.Model, 20000), "replayed": false}
			confirmed := false
			if r.Status == "sat" {
				confirmed = x.tryReplay(o.prop, cfg, r, ob, rep)
			}
			b, _ := json.MarshalIndent(rep, "", " ")
			os.WriteFile(rp, b, 0o644)
			suffix := " no-failing-input-found"
			if confirmed {
				suffix = ""
			}
			fmt.Printf("VIOLATION property=%s replay=%s obligation=%q status=%s%s\n", o.prop, rp, r.Name, r.Status, suffix)
		}
		if len(samples) < 12 || !ok {
			samples = append(samples, map[string]any{"obligation": r.Name, "kind": r.Kind, "status": r.Status, "solver": r.Solver, "ms": r.Ms, "paths": r.Paths, "clause": ob.clause, "smt_bytes": r.Bytes, "max_query_ms": r.MaxMs})
		}
		if o.verbose {
			fmt.Fprintf(os.Stderr, "  %-8s %-10s %5dms (max %dms) %s\n", r.Status, r.Solver, r.Ms, r.MaxMs, r.Name)
		}
		if _, isK := known[r.Name]; isK {
			knownSeen[r.Name] = true
		}
	}
	for _, e := range out.genErrors {
		violations++
		os.MkdirAll(replayDir, 0o755)
		rp := filepath.Join(replayDir, "generator-error.json")
		b, _ := json.MarshalIndent(map[string]any{"property": o.prop, "error": e}, "", " ")
		os.WriteFile(rp, b, 0o644)
		fmt.Printf("VIOLATION property=%s replay=%s generator: %s no-failing-input-found\n", o.prop, rp, strings.ReplaceAll(e, "\n", " "))
	}
	// known findings: the relaxed obligation (W or O) was proved above; report each listed finding
	for name, f := range known {
		if x.obligs[name] == nil {
			if f.Property == o.prop {
				// obligation no longer generated: stale entry, mention but do not fail
				fmt.Printf("KNOWN-FINDING: property=%s %s (obligation %s not generated on this tree)\n", o.prop, f.What, name)
			}
			continue
		}
		fmt.Printf("KNOWN-FINDING: property=%s %s\n", o.prop, f.What)
	}
	if total < cfg.MinObl {
		violations++
		os.MkdirAll(replayDir, 0o755)
		rp := filepath.Join(replayDir, "vacuity.json")
		b, _ := json.MarshalIndent(map[string]any{"property": o.prop, "error": fmt.Sprintf("only %d obligations generated, expected at least %d", total, cfg.MinObl)}, "", " ")
		os.WriteFile(rp, b, 0o644)
		fmt.Printf("VIOLATION property=%s replay=%s vacuity: %d obligations < %d no-failing-input-found\n", o.prop, rp, total, cfg.MinObl)
	}
	wall := time.Since(t0).Seconds()
	if !o.noEvidence {
		var trusted []string
		trusted = append(trusted, "go/packages+go/ssa (x/tools v0.50.0) translation of the source", "SMT solvers z3 4.8.12 / z3 5.1.0 / cvc5 1.0 (first definite answer in quick, no disagreement allowed in thorough)")
		for _, k := range sortedSet(x.havocked) {
			trusted = append(trusted, "call abstracted: "+k)
		}
		for _, k := range sortedSet(x.modelled) {
			trusted = append(trusted, "library model: "+k)
		}
		for p, pc := range x.contracts {
			for n, c := range pc.funcs {
				if c.trusted && x.modular[p+"."+n] {
					trusted = append(trusted, "trusted contract: "+p+"."+n)
				}
			}
		}
		var trustedContracts []string
		for _, k := range sortedSet(x.modular) {
			trustedContracts = append(trustedContracts, k)
		}
		level := cfg.Level
		if level == "" {
			level = "proof"
		}
		cov := map[string]any{
			"obligations":        total,
			"discharged":         discharged,
			"checker_cmd":        fmt.Sprintf("/verif/check %s --tier %s", o.prop, o.tier),
			"trusted_base":       trusted,
			"samples":            samples,
			"functions_under_contract": funcsUnder,
			"lemmas":             lemmaNames(lemmas),
			"inlined_callees":    sortedSet(x.inlined),
			"callees_by_contract": trustedContracts,
			"discharged_by_solver": bySolver,
			"solver_ms_total":    solverMs,
			"slowest_query_ms":   slowestMs,
			"slowest_query":      slowestName,
			"query_time_limit_s": timeout,
			"failed_obligations": failedNames,
			"notes":              sortedSet(x.notes),
			"not_covered":        cfg.NotCovered,
			"known_finding_obligations": knownObls,
			"vacuity_covers_inconclusive": inconclusiveCovers,
			"known_findings_no_longer_failing": knownGone,
			"bounded_standins":   cfg.Bounded,
			"integer_semantics":  "fixed-width bit-vectors of the exact Go width (wrap-around), no mathematical integers",
			"explanation":        "weakest-precondition style VCs generated from go/ssa of /repo's working tree by symbolic path execution; contracts in zz_verif_contracts.go (build tag verif); each named obligation aggregates all paths reaching it",
			"evaluations":        total,
			"distinct_nontrivial": countNontrivial(results),
			"rule":               "one evaluation per named obligation (postcondition clause, call precondition, loop invariant init/preservation, run-time safety check, frame, lemma); non-trivial = needed a solver call",
			"termination":        "not proved (partial correctness) unless a decreases clause is listed",
		}
		ev := Evidence{PropertyID: o.prop, Tier: o.tier, Seed: seed, Level: level, Coverage: cov,
			Assumptions: cfg.Assumptions, WallS: wall, Violations: violations}
		os.MkdirAll(filepath.Join(verifDir, "evidence"), 0o755)
		b, _ := json.MarshalIndent(ev, "", " ")
		os.WriteFile(filepath.Join(verifDir, "evidence", o.prop+".json"), b, 0o644)
	}
	fmt.Printf("property=%s tier=%s functions=%d obligations=%d discharged=%d violations=%d wall=%.1fs\n", o.prop, o.tier, len(funcsUnder), total, discharged, violations, wall)
	if violations > 0 {
		return 1, out
	}
	return 0, out
}

func lemmaNames(ls []*Lemma) []string {
	var out []string
	for _, l := range ls {
		out = append(out, l.name)
	}
	return out
}

func countNontrivial(rs []*SolveResult) int {
	n := 0
	for _, r := range rs {
		if r.Solver != "syntactic" {
			n++
		}
	}
	return n
}

func sortedSet(m map[string]bool) []string {
	var out []string
	for k := range m {
		out = append(out, k)
	}
	sort.Strings(out)
	return out
}

func sanitize(s string) string {
	r := strings.Map(func(r rune) rune {
		if r >= 'a' && r <= 'z' || r >= 'A' && r <= 'Z' || r >= '0' && r <= '9' || r == '.' || r == '-' || r == '_' {
			return r
		}
		return '_'
	}, s)
	if len(r) > 120 {
		r = r[:120]
	}
	return r
}

func trunc(s string, n int) string {
	if len(s) > n {
		return s[:n] + "...[truncated]"
	}
	return s
}

// tryReplay re-executes a counterexample on the real code where that can be done generically: a
// postcondition of a function whose parameters (and value receiver) are scalars and whose results are
// scalars or errors, with a contract that reads nothing but those. The model's inputs are passed to the real
// function in an in-package test injected with `go test -overlay` (nothing is written to /repo); the
// contract's preconditions and the refuted postcondition are then evaluated on the inputs and the values the
// real code returned. Confirmed = preconditions true and postcondition false on the real execution.
func (x *Exec) tryReplay(prop string, cfg *PropCfg, r *SolveResult, ob *Oblig, rep map[string]any) (confirmed bool) {
	defer func() {
		if e := recover(); e != nil {
			rep["replay_note"] = fmt.Sprintf("replay not possible: %v", e)
			confirmed = false
		}
	}()
	if r.Kind != "post" || os.Getenv("GOWP_NOREPLAY") != "" {
		return false
	}
	rt, ok := x.replayTargets[ob.fn]
	if !ok || rt.fn.Pkg == nil {
		return false
	}
	fn, c := rt.fn, rt.c
	isScalar := func(t types.Type) bool {
		b, ok := t.Underlying().(*types.Basic)
		return ok && b.Info()&(types.IsInteger|types.IsBoolean) != 0
	}
	sig := fn.Signature
	var clause *Clause
	for i, en := range c.ensures {
		if strings.HasSuffix(r.Name, fmt.Sprintf("#%d", i+1)) && en.text == ob.clause {
			clause = en
		}
	}
	if clause == nil {
		return false
	}
	imports := map[string]string{} // package path -> name, for the types named in the test
	qual := func(pk *types.Package) string {
		if pk == fn.Pkg.Pkg {
			return ""
		}
		imports[pk.Path()] = pk.Name()
		return pk.Name()
	}
	isTime := func(t types.Type) bool {
		n, ok := types.Unalias(t).(*types.Named)
		return ok && n.Obj().Pkg() != nil && n.Obj().Pkg().Path() == "time" && n.Obj().Name() == "Time"
	}
	// replayable: scalars, time.Time (Unix nanoseconds in the model) and structs of those whose fields the
	// in-package test can assign
	var replayable func(t types.Type) bool
	replayable = func(t types.Type) bool {
		if isScalar(t) || isTime(t) {
			return true
		}
		st, ok := t.Underlying().(*types.Struct)
		if !ok {
			return false
		}
		for i := 0; i < st.NumFields(); i++ {
			f := st.Field(i)
			if !f.Exported() && f.Pkg() != fn.Pkg.Pkg {
				return false
			}
			if !replayable(f.Type()) {
				return false
			}
		}
		return true
	}
	for _, p := range fn.Params {
		if !replayable(p.Type()) {
			rep["replay_note"] = "replay not possible generically: parameter " + p.Name() + " is neither a scalar nor a struct of scalars"
			return false
		}
	}
	// inputs from the model
	vals := parseModelConsts(r.Model)
	vars := map[string]SV{}
	var argTexts []string
	var setup []string
	inputs := map[string]string{}
	scalarLit := func(t types.Type, name string) (*Term, string) {
		v, ok := vals[name]
		if !ok {
			v = "0" // not mentioned by the model: any value will do
		}
		b := t.Underlying().(*types.Basic)
		tn := types.TypeString(t, qual)
		if b.Info()&types.IsBoolean != 0 {
			bv := v == "true"
			return boolTerm(bv), fmt.Sprintf("%s(%t)", tn, bv)
		}
		u, _ := strconv.ParseUint(v, 10, 64)
		w := leavesOf(t)[0].sort.bv
		if b.Info()&types.IsUnsigned != 0 {
			return mkBVu(u&widthMask(w), w), fmt.Sprintf("%s(%d)", tn, u&widthMask(w))
		}
		return mkBVu(u&widthMask(w), w), fmt.Sprintf("%s(%d)", tn, signExtend(u, w))
	}
	var fill func(t types.Type, goPath, leafName string) []*Term
	fill = func(t types.Type, goPath, leafName string) []*Term {
		switch {
		case isScalar(t):
			tm, lit := scalarLit(t, leafName)
			setup = append(setup, goPath+" = "+lit)
			inputs[goPath] = lit
			return []*Term{tm}
		case isTime(t):
			imports["time"] = "time"
			var out []*Term
			ns := int64(0)
			for _, l := range leavesOf(t) {
				if l.path == ".ext" {
					if v, ok := vals[leafName+".ext"]; ok {
						u, _ := strconv.ParseUint(v, 10, 64)
						ns = int64(u)
					}
					out = append(out, mkBVu(uint64(ns), 64))
				} else {
					out = append(out, mkBV(0, l.sort.bv))
				}
			}
			setup = append(setup, fmt.Sprintf("%s = time.Unix(0, %d)", goPath, ns))
			inputs[goPath] = fmt.Sprintf("time.Unix(0, %d)", ns)
			return out
		}
		st := t.Underlying().(*types.Struct)
		var out []*Term
		for i := 0; i < st.NumFields(); i++ {
			f := st.Field(i)
			out = append(out, fill(f.Type(), goPath+"."+f.Name(), leafName+"."+f.Name())...)
		}
		return out
	}
	for i, p := range fn.Params {
		an := fmt.Sprintf("a%d", i)
		setup = append(setup, "var "+an+" "+types.TypeString(p.Type(), qual))
		ls := fill(p.Type(), an, "in_"+p.Name())
		vars[p.Name()] = SV{ty: p.Type(), l: ls}
		argTexts = append(argTexts, an)
	}
	// the call
	call := fn.Name() + "(" + strings.Join(argTexts, ", ") + ")"
	if sig.Recv() != nil {
		call = "(" + argTexts[0] + ")." + fn.Name() + "(" + strings.Join(argTexts[1:], ", ") + ")"
	}
	rs := sig.Results()
	var lhs, prints []string
	for i := 0; i < rs.Len(); i++ {
		t := rs.At(i).Type()
		lhs = append(lhs, fmt.Sprintf("r%d", i))
		switch {
		case isScalar(t) && t.Underlying().(*types.Basic).Info()&types.IsBoolean != 0:
			prints = append(prints, fmt.Sprintf("fmt.Sprint(bool(r%d))", i))
		case isScalar(t) && t.Underlying().(*types.Basic).Info()&types.IsUnsigned != 0:
			prints = append(prints, fmt.Sprintf("fmt.Sprint(uint64(r%d))", i))
		case isScalar(t):
			prints = append(prints, fmt.Sprintf("fmt.Sprint(uint64(int64(r%d)))", i))
		case types.Identical(t, types.Universe.Lookup("error").Type()):
			prints = append(prints, fmt.Sprintf("fmt.Sprint(r%d != nil)", i))
		default:
			rep["replay_note"] = "replay not possible generically: result is neither scalar nor error"
			return false
		}
	}
	if rs.Len() == 0 {
		return false
	}
	var imps []string
	for pth, nm := range imports {
		if pth == "fmt" || pth == "strings" || pth == "testing" {
			continue
		}
		imps = append(imps, fmt.Sprintf("\t%s %q\n", nm, pth))
	}
	sort.Strings(imps)
	src := "package " + fn.Pkg.Pkg.Name() + "\n\nimport (\n\t\"fmt\"\n\t\"strings\"\n\t\"testing\"\n" + strings.Join(imps, "") + ")\n\n" +
		"func TestGowpReplay(t *testing.T) {\n\t" + strings.Join(setup, "\n\t") + "\n\t" + strings.Join(lhs, ", ") + " := " + call + "\n" +
		"\tfmt.Println(\"GOWP-REPLAY\", strings.Join([]string{" + strings.Join(prints, ", ") + "}, \" \"))\n}\n"
	rel := strings.TrimPrefix(fn.Pkg.Pkg.Path(), "github.com/scionproto/scion/")
	pkgDir := filepath.Join(repoDir, rel)
	tmp, err := os.MkdirTemp("", "gowp-replay-")
	if err != nil {
		return false
	}
	defer os.RemoveAll(tmp)
	tf := filepath.Join(tmp, "zz_gowp_replay_test.go")
	os.WriteFile(tf, []byte(src), 0o644)
	ov, _ := json.Marshal(map[string]any{"Replace": map[string]string{filepath.Join(pkgDir, "zz_gowp_replay_test.go"): tf}})
	ovf := filepath.Join(tmp, "overlay.json")
	os.WriteFile(ovf, ov, 0o644)
	ctx, cancel := context.WithTimeout(context.Background(), 180*time.Second)
	defer cancel()
	cmd := exec.CommandContext(ctx, "go", "test", "-overlay", ovf, "-vet=off", "-count=1", "-timeout", "60s", "-v", "-run", "^TestGowpReplay$", "./"+rel)
	cmd.Dir = repoDir
	cmd.Env = append(os.Environ(), "GOFLAGS=-mod=mod", "GOPROXY=off", "GOSUMDB=off")
	outb, _ := cmd.CombinedOutput()
	rep["replay_test"] = src
	rep["replay_inputs"] = inputs
	line := ""
	for _, l := range strings.Split(string(outb), "\n") {
		if strings.HasPrefix(l, "GOWP-REPLAY ") {
			line = strings.TrimPrefix(l, "GOWP-REPLAY ")
		}
	}
	if line == "" {
		rep["replay_note"] = "replay test did not produce a result: " + trunc(string(outb), 2000)
		return false
	}
	rep["replay_real_results"] = line
	fs := strings.Fields(line)
	if len(fs) != rs.Len() {
		return false
	}
	var results []SV
	for i := 0; i < rs.Len(); i++ {
		t := rs.At(i).Type()
		switch {
		case isScalar(t) && t.Underlying().(*types.Basic).Info()&types.IsBoolean != 0:
			results = append(results, scalarSV(t, boolTerm(fs[i] == "true")))
		case isScalar(t):
			u, _ := strconv.ParseUint(fs[i], 10, 64)
			w := leavesOf(t)[0].sort.bv
			results = append(results, scalarSV(t, mkBVu(u&widthMask(w), w)))
		default: // error: only nil-ness is observed
			sv := freshSV(t, "replay_err")
			if fs[i] == "true" {
				sv.l[0] = mkBV(1, 32)
			} else {
				for k := range sv.l {
					sv.l[k] = mkBV(0, sv.l[k].sort.bv)
				}
			}
			results = append(results, sv)
		}
	}
	bindResults(vars, sig, results)
	nf := 0
	st := &State{heap: map[string]*Term{}, pcset: map[int]bool{}, nfresh: &nf, lets: map[string]SV{}}
	st.entry = st
	env := &Env{x: x, st: st, oldSt: st, vars: vars, pkg: fn.Pkg.Pkg}
	for _, l := range c.lets {
		v, e := env.EvalAny(l.expr, nil)
		if e != nil {
			rep["replay_note"] = "replay: let " + l.name + ": " + e.Error()
			return false
		}
		vars[l.name] = v
	}
	for _, rq := range c.requires {
		t, e := env.EvalBool(rq.expr)
		if e != nil || t != True {
			rep["replay_note"] = "replay: the model's inputs do not satisfy the precondition syntactically (" + rq.text + ")"
			return false
		}
	}
	t, e := env.EvalBool(clause.expr)
	if e != nil {
		rep["replay_note"] = "replay: postcondition not evaluable on concrete values: " + e.Error()
		return false
	}
	if t == False {
		rep["replayed"] = true
		rep["replay_note"] = "the real function, run on the model's inputs, returned values for which the postcondition is false"
		return true
	}
	if t == True {
		rep["replay_note"] = "the real function satisfies the postcondition on the model's inputs (the model does not reflect the real code)"
	} else {
		rep["replay_note"] = "postcondition does not reduce to a constant on the concrete values (uninterpreted symbols)"
	}
	return false
}

type replayTarget struct {
	fn *ssa.Function
	c  *FuncContract
}

func boolTerm(b bool) *Term {
	if b {
		return True
	}
	return False
}

func widthMask(w int) uint64 {
	if w >= 64 {
		return ^uint64(0)
	}
	return (uint64(1) << uint(w)) - 1
}

func signExtend(u uint64, w int) int64 {
	if w >= 64 {
		return int64(u)
	}
	u &= widthMask(w)
	if u&(uint64(1)<<uint(w-1)) != 0 {
		return int64(u | ^widthMask(w))
	}
	return int64(u)
}

var modelConstRe = regexp.MustCompile(`\(define-fun\s+(\|[^|]+\||[^\s()]+)\s+\(\)\s+(\(_ BitVec \d+\)|Bool)\s+(#x[0-9a-fA-F]+|#b[01]+|true|false)\)`)

// parseModelConsts reads the constants of a solver model (z3 and cvc5 print define-fun name () sort value).
func parseModelConsts(model string) map[string]string {
	out := map[string]string{}
	flat := strings.Join(strings.Fields(model), " ")
	for _, m := range modelConstRe.FindAllStringSubmatch(flat, -1) {
		name := strings.Trim(m[1], "|")
		v := m[3]
		switch {
		case strings.HasPrefix(v, "#x"):
			u, _ := strconv.ParseUint(v[2:], 16, 64)
			out[name] = strconv.FormatUint(u, 10)
		case strings.HasPrefix(v, "#b"):
			u, _ := strconv.ParseUint(v[2:], 2, 64)
			out[name] = strconv.FormatUint(u, 10)
		default:
			out[name] = v
		}
	}
	return out
}

func maxI64(a, b int64) int64 {
	if a > b {
		return a
	}
	return b
}
