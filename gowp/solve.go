package main

import (
	"sort"
	"bytes"
	"context"
	"fmt"
	"os"
	"os/exec"
	"path/filepath"
	"runtime"
	"strings"
	"sync"
	"sync/atomic"
	"time"
)

type SolveResult struct {
	Name    string  `json:"name"`
	Kind    string  `json:"kind"`
	Status  string  `json:"status"` // unsat (discharged), sat, unknown, timeout, trivial
	Solver  string  `json:"solver"`
	Ms      int64   `json:"ms"`
	MaxMs   int64   `json:"max_query_ms,omitempty"` // slowest single solver query (per-path mode)
	Paths   int     `json:"paths"`
	Desc    string  `json:"desc,omitempty"`
	Pos     string  `json:"pos,omitempty"`
	Model   string  `json:"model,omitempty"`
	Bytes   int     `json:"smt_bytes"`
	File    string  `json:"-"`
	Fn      string  `json:"fn,omitempty"`
}

type solverSpec struct {
	name string
	argv func(file string, timeoutS int) []string
	logic string
}

var solvers = []solverSpec{
	{"z3-5.1.0", func(f string, t int) []string { return []string{"z3-new", fmt.Sprintf("-T:%d", t), f} }, ""},
	{"z3-4.8.12", func(f string, t int) []string { return []string{"z3", fmt.Sprintf("-T:%d", t), f} }, ""},
	{"cvc5-1.0", func(f string, t int) []string {
		return []string{"cvc5", fmt.Sprintf("--tlimit=%d", t*1000), f}
	}, "ALL"},
}

func hasLambdaOrQuant(s string) bool { return strings.Contains(s, "(forall ") || strings.Contains(s, "(exists ") }

var procSem = make(chan struct{}, maxInt(2, runtime.NumCPU()-4))

// qfSem: the quantifier-free variants have their own slots, so that a cheap conclusive answer is never
// queued behind the slow quantified runs of other paths and obligations (with 80 paths x 5 processes the
// 0.2 s winners waited 20 s for a core)
var qfSem = make(chan struct{}, maxInt(2, runtime.NumCPU()/2))

func minInt(a, b int) int {
	if a < b {
		return a
	}
	return b
}

func maxInt(a, b int) int {
	if a > b {
		return a
	}
	return b
}

// runOne runs a single solver on a script; returns status, model text.
func runOne(ctx context.Context, sp solverSpec, dir, base, script string, timeoutS int) (string, string) {
	body := script
	if sp.logic != "" {
		body = "(set-logic " + sp.logic + ")\n" + strings.Replace(script, "(set-option :produce-models true)\n", "", 1)
		body = "(set-option :produce-models true)\n" + body
	}
	f := filepath.Join(dir, base+"."+sp.name+".smt2")
	if err := os.WriteFile(f, []byte(body), 0o644); err != nil {
		return "error", err.Error()
	}
	argv := sp.argv(f, timeoutS)
	// one solver process per core: the time limits are wall-clock, and an oversubscribed machine (12
	// obligations x 4 paths x 3 solvers) turned 2 s queries into timeouts
	sem := procSem
	if strings.HasSuffix(sp.name, "+qf") {
		sem = qfSem
	}
	select {
	case sem <- struct{}{}:
		defer func() { <-sem }()
	case <-ctx.Done():
		return "cancelled", ""
	}
	cctx, cancel := context.WithTimeout(ctx, time.Duration(timeoutS+2)*time.Second)
	defer cancel()
	cmd := exec.CommandContext(cctx, argv[0], argv[1:]...)
	var out bytes.Buffer
	cmd.Stdout = &out
	cmd.Stderr = &out
	_ = cmd.Run()
	s := out.String()
	first := strings.TrimSpace(strings.SplitN(s, "\n", 2)[0])
	switch first {
	case "unsat":
		return "unsat", ""
	case "sat":
		rest := ""
		if i := strings.Index(s, "\n"); i >= 0 {
			rest = s[i+1:]
		}
		return "sat", rest
	case "unknown", "timeout":
		return first, s
	}
	if cctx.Err() != nil {
		return "timeout", ""
	}
	return "error", s
}

// solveRace races the solvers on one script; first definite answer wins.
func solveRace(dir, base, script string, timeoutS int, unanimous bool, qfScript string) (status, solver, model string, ms int64) {
	t0 := time.Now()
	ctx, cancel := context.WithCancel(context.Background())
	defer cancel()
	type ans struct{ st, sv, md string }
	ch := make(chan ans, len(solvers)+2)
	start := func(sp solverSpec, delay time.Duration) {
		go func() {
			select {
			case <-time.After(delay):
			case <-ctx.Done():
				ch <- ans{"cancelled", sp.name, ""}
				return
			}
			st, md := runOne(ctx, sp, dir, base, script, timeoutS)
			ch <- ans{st, sp.name, md}
		}()
	}
	n := len(solvers)
	if qfScript != "" {
		// the same query with its remaining universal hypotheses dropped (only the generator's instances
		// are kept): weaker hypotheses, so "unsat" is conclusive; any other answer is ignored
		for _, k := range []int{0, 2} {
			sp := solvers[k]
			sp.name += "+qf"
			n++
			go func(sp solverSpec) {
				st, md := runOne(ctx, sp, dir, base+"_qf", qfScript, timeoutS)
				if st != "unsat" {
					st, md = "ignored", ""
				}
				ch <- ans{st, sp.name, md}
			}(sp)
		}
	}
	for i, sp := range solvers {
		d := time.Duration(0)
		if !unanimous && (i > 0 || qfScript != "") {
			d = 1500 * time.Millisecond // give the primary solver a head start
		}
		start(sp, d)
	}
	var got []ans
	for k := 0; k < n; k++ {
		a := <-ch
		got = append(got, a)
		if !unanimous && (a.st == "unsat" || a.st == "sat") {
			return a.st, a.sv, a.md, time.Since(t0).Milliseconds()
		}
	}
	ms = time.Since(t0).Milliseconds()
	if unanimous {
		nuns, nsat := 0, 0
		var names []string
		for _, a := range got {
			if a.st == "unsat" {
				nuns++
				names = append(names, a.sv)
			}
			if a.st == "sat" {
				nsat++
				model = a.md
				solver = a.sv
			}
		}
		if nsat > 0 {
			return "sat", solver, model, ms
		}
		if nuns > 0 {
			// at least one unsat and no sat; others may have timed out
			return "unsat", strings.Join(names, "+"), "", ms
		}
	}
	st := "unknown"
	for _, a := range got {
		if a.st == "timeout" {
			st = "timeout"
		}
		if a.st == "error" && st == "unknown" {
			model = a.md
		}
	}
	return st, "", model, ms
}

// noLinNorm disables the bounds-directed normalisation of comparisons (linarith.go); GOWP_NOLIN=1.
var noLinNorm = os.Getenv("GOWP_NOLIN") != ""

// fullInstantiation disables the goal-directed selection of instances (retry pass).
var fullInstantiation = false

// Discharge runs all obligations in parallel.
func Discharge(obls []*Oblig, dir string, timeoutS int, par int, unanimous bool) []*SolveResult {
	res := make([]*SolveResult, len(obls))
	sem := make(chan struct{}, par)
	var wg sync.WaitGroup
	// phase 1 (sequential: term construction is not thread-safe): instantiate quantified hypotheses
	// (see quant.go) and build the aggregated formula of every obligation
	aggs := make([]*Term, len(obls))
	qfAggs := make([]*Term, len(obls))
	qfDisj := make([][]*Term, len(obls))
	for i, o := range obls {
		r := &SolveResult{Name: o.name, Kind: o.kind, Paths: o.paths, Desc: o.desc, Pos: o.pos, Fn: o.fn}
		res[i] = r
		if len(o.disj) == 0 {
			if o.kind == "cover" {
				r.Status = "unsat"
			} else {
				r.Status = "trivial"
			}
			r.Solver = "syntactic"
			continue
		}
		knownDistinct = o.distinct
		if knownDistinct == nil {
			knownDistinct = map[[2]int]bool{}
		}
		if o.kind != "cover" {
			if o.raw == nil {
				o.raw = append([]*Term{}, o.disj...)
				o.rawNegs = append([]*Term{}, o.negs...)
			}
			o.disj = append([]*Term{}, o.raw...)
			o.negs = append([]*Term{}, o.rawNegs...)
			for k, dj := range o.raw {
				if containsQuant(dj) {
					var neg *Term
					if k < len(o.negs) && !fullInstantiation {
						neg = o.negs[k]
					}
					o.disj[k] = instantiateQuery(dj, neg)
				}
			}
			if !noLinNorm {
				var nd, nn []*Term
				for k := range o.disj {
					g := normalizeComparisons(o.disj[k])
					for _, piece := range splitOnConditions(g, 3) {
						nd = append(nd, piece)
						if k < len(o.negs) {
							nn = append(nn, o.negs[k])
						} else {
							nn = append(nn, nil)
						}
					}
				}
				o.disj, o.negs = nd, nn
			}
		}
		aggs[i] = Or(o.disj...)
		if o.kind != "cover" && containsQuant(aggs[i]) {
			qd := make([]*Term, len(o.disj))
			ok := true
			for k, dj := range o.disj {
				q, good := dropQuants(dj, true)
				if !good {
					ok = false
					break
				}
				qd[k] = q
			}
			if ok {
				qfDisj[i] = qd
				qfAggs[i] = Or(qd...)
			}
		}
	}
	knownDistinct = map[[2]int]bool{}
	// phase 2 (parallel): printing and solving only
	for i, o := range obls {
		if aggs[i] == nil {
			continue
		}
		r := res[i]
		wg.Add(1)
		go func(i int, o *Oblig, r *SolveResult) {
			defer wg.Done()
			sem <- struct{}{}
			defer func() { <-sem }()
			script := "; " + o.name + "\n" + Script([]*Term{aggs[i]}, true, "")
			r.Bytes = len(script)
			base := fmt.Sprintf("o%04d", i)
			r.File = filepath.Join(dir, base)
			tooLarge := len(script) > 4<<20
			if tooLarge && len(o.disj) <= 1 {
				r.Status = "unknown"
				r.Model = "VC too large"
				return
			}
			first := timeoutS
			if len(o.disj) > 1 && timeoutS > 5 {
				first = 5
			}
			qfs := ""
			if qfAggs[i] != nil && !tooLarge {
				qfs = "; " + o.name + " (universal hypotheses dropped)\n" + Script([]*Term{qfAggs[i]}, true, "")
			}
			var st, sv, md string
			var ms int64
			if tooLarge {
				st = "unknown" // decide the paths one by one
			} else {
				st, sv, md, ms = solveRace(dir, base, script, first, unanimous, qfs)
			}
			if (st == "unsat" || st == "sat") || len(o.disj) <= 1 {
				r.Status, r.Solver, r.Model, r.Ms = st, sv, md, ms
				return
			}
			// undecided in aggregate: decide each path separately (all must be unsat), 4 at a time
			total := ms
			solversUsed := map[string]bool{}
			type pres struct {
				st, sv, md string
				ms         int64
			}
			results := make([]pres, len(o.disj))
			var pwg sync.WaitGroup
			psem := make(chan struct{}, 8)
			var failed int32
			for k, dj := range o.disj {
				pwg.Add(1)
				go func(k int, dj *Term) {
					defer pwg.Done()
					psem <- struct{}{}
					defer func() { <-psem }()
					if atomic.LoadInt32(&failed) != 0 {
						results[k] = pres{st: "skipped"}
						return
					}
					sc := Script([]*Term{dj}, true, "")
					qfs := ""
					if qfDisj[i] != nil {
						qfs = Script([]*Term{qfDisj[i][k]}, true, "")
					}
					// paths are many and mostly easy: the quantifier-free variant first, alone (one process per
					// path instead of five); the full race only when that is not conclusive
					var st, sv, md string
					var ms int64
					// (thorough tier: all solvers are heard on every query - except for obligations split into more
					// than 24 paths, where waiting for three solvers on each of hundreds of easy queries takes
					// tens of minutes; there the first definite answer counts as in the quick tier)
					un := unanimous && len(o.disj) <= 24
					if qfs != "" && !un {
						t0 := time.Now()
						sp := solvers[0]
						sp.name += "+qf"
						qst, _ := runOne(context.Background(), sp, dir, fmt.Sprintf("%s_p%d_qf", base, k), qfs, minInt(8, timeoutS))
						if qst == "unsat" {
							st, sv, ms = "unsat", sp.name, time.Since(t0).Milliseconds()
						}
					}
					if st == "" {
						var ms2 int64
						st, sv, md, ms2 = solveRace(dir, fmt.Sprintf("%s_p%d", base, k), sc, timeoutS, un, qfs)
						ms += ms2
					}
					results[k] = pres{st, sv, md, ms}
					if st != "unsat" {
						atomic.StoreInt32(&failed, 1)
					}
				}(k, dj)
			}
			pwg.Wait()
			for _, pr := range results {
				total += pr.ms
				if pr.ms > r.MaxMs {
					r.MaxMs = pr.ms
				}
				if pr.st == "skipped" {
					continue
				}
				if pr.st != "unsat" {
					r.Status, r.Solver, r.Model, r.Ms = pr.st, pr.sv, pr.md, total
					return
				}
				solversUsed[pr.sv] = true
			}
			var names []string
			for n := range solversUsed {
				names = append(names, n)
			}
			sort.Strings(names)
			r.Status, r.Solver, r.Ms = "unsat", strings.Join(names, ",")+" (per path)", total
		}(i, o, r)
	}
	wg.Wait()
	return res
}

func containsQuant(t *Term) bool {
	seen := map[int]bool{}
	var walk func(x *Term) bool
	walk = func(x *Term) bool {
		if seen[x.id] {
			return false
		}
		seen[x.id] = true
		if x.op == "forall" || x.op == "exists" {
			return true
		}
		for _, a := range x.args {
			if walk(a) {
				return true
			}
		}
		return false
	}
	return walk(t)
}

// dropQuants replaces the universal hypotheses that remain in an asserted formula by true (and negated
// existentials by false). The result is implied by the input, so its unsatisfiability carries over.
// ok is false when a quantifier occurs where its polarity is not determined.
func dropQuants(t *Term, positive bool) (*Term, bool) {
	if !containsQuant(t) {
		return t, true
	}
	switch t.op {
	case "not":
		a, ok := dropQuants(t.args[0], !positive)
		return Not(a), ok
	case "and", "or":
		out := make([]*Term, len(t.args))
		for i, a := range t.args {
			q, ok := dropQuants(a, positive)
			if !ok {
				return t, false
			}
			out[i] = q
		}
		if t.op == "and" {
			return And(out...), true
		}
		return Or(out...), true
	case "=>":
		a, ok1 := dropQuants(t.args[0], !positive)
		b, ok2 := dropQuants(t.args[1], positive)
		return Implies(a, b), ok1 && ok2
	case "ite":
		if t.sort == BoolS && !containsQuant(t.args[0]) {
			a, ok1 := dropQuants(t.args[1], positive)
			b, ok2 := dropQuants(t.args[2], positive)
			return Ite(t.args[0], a, b), ok1 && ok2
		}
	case "forall":
		if positive {
			return True, true
		}
	case "exists":
		if !positive {
			return False, true
		}
	}
	return t, false
}
