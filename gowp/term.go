package main

// Hash-consed SMT terms with constant folding. Integers are bit-vectors of
// their exact Go width; references are 32-bit vectors.

import (
	"fmt"
	"math/big"
	"sort"
	"strings"
)

type Sort struct {
	s    string
	bv   int // >0 for bit-vectors
	idx  *Sort
	elem *Sort
}

var sortTab = map[string]*Sort{}

func mkSort(s string, bv int, idx, elem *Sort) *Sort {
	if x, ok := sortTab[s]; ok {
		return x
	}
	x := &Sort{s: s, bv: bv, idx: idx, elem: elem}
	sortTab[s] = x
	return x
}

var BoolS = mkSort("Bool", 0, nil, nil)

func BV(n int) *Sort { return mkSort(fmt.Sprintf("(_ BitVec %d)", n), n, nil, nil) }
func ArrS(idx, elem *Sort) *Sort {
	return mkSort("(Array "+idx.s+" "+elem.s+")", 0, idx, elem)
}

var RefS = BV(32)
var I64 = BV(64)

type Term struct {
	id    int
	op    string // "const","true","false","var","bound", or SMT operator
	args  []*Term
	sort  *Sort
	c     *big.Int
	name  string
	p1    int // indexed-op params
	p2    int
	bound bool    // contains a bound variable
	bvars []*Term // for quantifiers / lambda
}

var termTab = map[string]*Term{}
var termCount int

func intern(t *Term) *Term {
	var sb strings.Builder
	sb.WriteString(t.op)
	sb.WriteByte('|')
	sb.WriteString(t.sort.s)
	sb.WriteByte('|')
	sb.WriteString(t.name)
	if t.c != nil {
		sb.WriteString(t.c.Text(16))
	}
	fmt.Fprintf(&sb, "|%d|%d", t.p1, t.p2)
	for _, a := range t.args {
		fmt.Fprintf(&sb, ",%d", a.id)
		if a.bound {
			t.bound = true
		}
	}
	for _, a := range t.bvars {
		fmt.Fprintf(&sb, ";%d", a.id)
	}
	k := sb.String()
	if x, ok := termTab[k]; ok {
		return x
	}
	termCount++
	t.id = termCount
	termTab[k] = t
	return t
}

var True = intern(&Term{op: "true", sort: BoolS})
var False = intern(&Term{op: "false", sort: BoolS})

func mkBool(b bool) *Term {
	if b {
		return True
	}
	return False
}

func mask(w int) *big.Int {
	m := new(big.Int).Lsh(big.NewInt(1), uint(w))
	return m.Sub(m, big.NewInt(1))
}

func mkBVbig(v *big.Int, w int) *Term {
	x := new(big.Int).And(v, mask(w)) // two's complement for negatives: And handles sign via big semantics
	if v.Sign() < 0 {
		m := new(big.Int).Lsh(big.NewInt(1), uint(w))
		x = new(big.Int).Mod(v, m)
		if x.Sign() < 0 {
			x.Add(x, m)
		}
	}
	return intern(&Term{op: "const", sort: BV(w), c: x})
}
func mkBV(v int64, w int) *Term { return mkBVbig(big.NewInt(v), w) }
func mkBVu(v uint64, w int) *Term {
	return mkBVbig(new(big.Int).SetUint64(v), w)
}

func mkVar(name string, s *Sort) *Term { return intern(&Term{op: "var", name: name, sort: s}) }
func mkBound(name string, s *Sort) *Term {
	return intern(&Term{op: "bound", name: name, sort: s, bound: true})
}

func (t *Term) isConst() bool { return t.op == "const" }
func (t *Term) isTrue() bool  { return t == True }
func (t *Term) isFalse() bool { return t == False }

func signed(v *big.Int, w int) *big.Int {
	if v.Bit(w-1) == 1 {
		return new(big.Int).Sub(v, new(big.Int).Lsh(big.NewInt(1), uint(w)))
	}
	return v
}

func mkApp(op string, s *Sort, args ...*Term) *Term {
	return intern(&Term{op: op, sort: s, args: args})
}

func Not(a *Term) *Term {
	if a == True {
		return False
	}
	if a == False {
		return True
	}
	if a.op == "not" {
		return a.args[0]
	}
	return mkApp("not", BoolS, a)
}

func And(as ...*Term) *Term {
	var out []*Term
	seen := map[int]bool{}
	for _, a := range as {
		if a == True {
			continue
		}
		if a == False {
			return False
		}
		if a.op == "and" {
			for _, b := range a.args {
				if !seen[b.id] {
					seen[b.id] = true
					out = append(out, b)
				}
			}
			continue
		}
		if !seen[a.id] {
			seen[a.id] = true
			out = append(out, a)
		}
	}
	for _, a := range out {
		if a.op == "not" && seen[a.args[0].id] {
			return False
		}
	}
	if len(out) == 0 {
		return True
	}
	if len(out) == 1 {
		return out[0]
	}
	return mkApp("and", BoolS, out...)
}

func Or(as ...*Term) *Term {
	var out []*Term
	seen := map[int]bool{}
	for _, a := range as {
		if a == False {
			continue
		}
		if a == True {
			return True
		}
		if a.op == "or" {
			for _, b := range a.args {
				if !seen[b.id] {
					seen[b.id] = true
					out = append(out, b)
				}
			}
			continue
		}
		if !seen[a.id] {
			seen[a.id] = true
			out = append(out, a)
		}
	}
	for _, a := range out {
		if a.op == "not" && seen[a.args[0].id] {
			return True
		}
	}
	if len(out) == 0 {
		return False
	}
	if len(out) == 1 {
		return out[0]
	}
	return mkApp("or", BoolS, out...)
}

func Implies(a, b *Term) *Term {
	if a == True {
		return b
	}
	if a == False || b == True {
		return True
	}
	if b == False {
		return Not(a)
	}
	return mkApp("=>", BoolS, a, b)
}

func Ite(c, a, b *Term) *Term {
	if c == True {
		return a
	}
	if c == False {
		return b
	}
	if a == b {
		return a
	}
	if a.sort == BoolS {
		if a == True && b == False {
			return c
		}
		if a == False && b == True {
			return Not(c)
		}
	}
	return mkApp("ite", a.sort, c, a, b)
}

func Eq(a, b *Term) *Term {
	if a == b {
		return True
	}
	if a.sort != b.sort {
		panic(fmt.Sprintf("Eq sort mismatch %s vs %s (%s / %s)", a.sort.s, b.sort.s, a.String(), b.String()))
	}
	if a.isConst() && b.isConst() {
		return mkBool(a.c.Cmp(b.c) == 0)
	}
	if a.sort == BoolS {
		if a == True {
			return b
		}
		if b == True {
			return a
		}
		if a == False {
			return Not(b)
		}
		if b == False {
			return Not(a)
		}
	}
	if a.id > b.id {
		a, b = b, a
	}
	return mkApp("=", BoolS, a, b)
}

func Neq(a, b *Term) *Term { return Not(Eq(a, b)) }

// BV binary arithmetic with folding.
func BvBin(op string, a, b *Term) *Term {
	if a.sort != b.sort {
		panic(fmt.Sprintf("BvBin %s sort mismatch %s vs %s: %s , %s", op, a.sort.s, b.sort.s, a, b))
	}
	w := a.sort.bv
	if op == "bvadd" {
		return mkAdd(w, a, b)
	}
	if op == "bvsub" {
		return mkAdd(w, a, bvNegate(b))
	}
	if a.isConst() && b.isConst() {
		x, y := a.c, b.c
		r := new(big.Int)
		switch op {
		case "bvadd":
			r.Add(x, y)
		case "bvsub":
			r.Sub(x, y)
		case "bvmul":
			r.Mul(x, y)
		case "bvand":
			r.And(x, y)
		case "bvor":
			r.Or(x, y)
		case "bvxor":
			r.Xor(x, y)
		case "bvshl":
			if y.Cmp(big.NewInt(int64(w))) >= 0 {
				r.SetInt64(0)
			} else {
				r.Lsh(x, uint(y.Int64()))
			}
		case "bvlshr":
			if y.Cmp(big.NewInt(int64(w))) >= 0 {
				r.SetInt64(0)
			} else {
				r.Rsh(x, uint(y.Int64()))
			}
		case "bvashr":
			sx := signed(x, w)
			if y.Cmp(big.NewInt(int64(w))) >= 0 {
				if sx.Sign() < 0 {
					r.SetInt64(-1)
				} else {
					r.SetInt64(0)
				}
			} else {
				r.Rsh(sx, uint(y.Int64()))
			}
		case "bvudiv":
			if y.Sign() == 0 {
				goto nofold
			}
			r.Div(x, y)
		case "bvurem":
			if y.Sign() == 0 {
				goto nofold
			}
			r.Mod(x, y)
		case "bvsdiv":
			if y.Sign() == 0 {
				goto nofold
			}
			r.Quo(signed(x, w), signed(y, w))
		case "bvsrem":
			if y.Sign() == 0 {
				goto nofold
			}
			r.Rem(signed(x, w), signed(y, w))
		default:
			goto nofold
		}
		return mkBVbig(r, w)
	}
nofold:
	// identities
	switch op {
	case "bvadd", "bvor", "bvxor":
		if a.isConst() && a.c.Sign() == 0 {
			return b
		}
		if b.isConst() && b.c.Sign() == 0 {
			return a
		}
	case "bvsub", "bvshl", "bvlshr", "bvashr":
		if b.isConst() && b.c.Sign() == 0 {
			return a
		}
	case "bvand":
		if a.isConst() && a.c.Sign() == 0 {
			return a
		}
		if b.isConst() && b.c.Sign() == 0 {
			return b
		}
		if b.isConst() && b.c.Cmp(mask(w)) == 0 {
			return a
		}
		if a.isConst() && a.c.Cmp(mask(w)) == 0 {
			return b
		}
	case "bvmul":
		if a.isConst() && a.c.Cmp(big.NewInt(1)) == 0 {
			return b
		}
		if b.isConst() && b.c.Cmp(big.NewInt(1)) == 0 {
			return a
		}
	}
	if op == "bvsub" && a == b {
		return mkBV(0, w)
	}
	return mkApp(op, a.sort, a, b)
}

// mkAdd builds a linear normal form: summands flattened, x - y kept as x + (bvneg y), equal atoms
// merged into one coefficient (so (a+b)-(c+a) is b + (bvneg c)), constants folded (kept last),
// atoms ordered by term id.
func mkAdd(w int, xs ...*Term) *Term {
	coef := map[int]*big.Int{}
	atoms := map[int]*Term{}
	c := new(big.Int)
	var add func(t *Term, k *big.Int)
	add = func(t *Term, k *big.Int) {
		switch {
		case t.isConst():
			c.Add(c, new(big.Int).Mul(k, t.c))
			return
		case t.op == "bvadd":
			for _, a := range t.args {
				add(a, k)
			}
			return
		case t.op == "bvneg":
			add(t.args[0], new(big.Int).Neg(k))
			return
		case t.op == "bvmul" && len(t.args) == 2 && t.args[0].isConst():
			add(t.args[1], new(big.Int).Mul(k, t.args[0].c))
			return
		case t.op == "bvmul" && len(t.args) == 2 && t.args[1].isConst():
			add(t.args[0], new(big.Int).Mul(k, t.args[1].c))
			return
		}
		if coef[t.id] == nil {
			coef[t.id] = new(big.Int)
			atoms[t.id] = t
		}
		coef[t.id].Add(coef[t.id], k)
	}
	one := big.NewInt(1)
	for _, x := range xs {
		add(x, one)
	}
	c.And(c, mask(w))
	ids := make([]int, 0, len(coef))
	for id := range coef {
		ids = append(ids, id)
	}
	sort.Ints(ids)
	// lift a conditional summand out of the sum: x + ite(c, a, b) = ite(c, x+a, x+b). Each branch is then
	// normalised on its own, so that e.g. off + ite(c, n, len-wi) + wi - len collapses to off in the
	// second branch syntactically instead of leaving an adder-equivalence problem to the bit-blaster.
	nite := 0
	lift := -1
	for _, id := range ids {
		if atoms[id].op == "ite" && new(big.Int).And(coef[id], mask(w)).Sign() != 0 {
			nite++
			if lift < 0 {
				lift = id
			}
		}
	}
	if nite >= 1 && nite <= 3 {
		it := atoms[lift]
		k := new(big.Int).And(coef[lift], mask(w))
		scale := func(t *Term) *Term {
			if k.Cmp(one) == 0 {
				return t
			}
			if t.isConst() {
				return mkBVbig(new(big.Int).Mul(k, t.c), w)
			}
			return mkApp("bvmul", BV(w), mkBVbig(k, w), t)
		}
		var rest []*Term
		for _, id := range ids {
			if id == lift {
				continue
			}
			kk := new(big.Int).And(coef[id], mask(w))
			switch {
			case kk.Sign() == 0:
			case kk.Cmp(one) == 0:
				rest = append(rest, atoms[id])
			default:
				rest = append(rest, mkApp("bvmul", BV(w), mkBVbig(kk, w), atoms[id]))
			}
		}
		rest = append(rest, mkBVbig(c, w))
		return Ite(it.args[0], mkAdd(w, append(append([]*Term{}, rest...), scale(it.args[1]))...),
			mkAdd(w, append(append([]*Term{}, rest...), scale(it.args[2]))...))
	}
	var args []*Term
	for _, id := range ids {
		k := new(big.Int).And(coef[id], mask(w))
		switch {
		case k.Sign() == 0:
		case k.Cmp(one) == 0:
			args = append(args, atoms[id])
		case k.Cmp(mask(w)) == 0:
			args = append(args, mkApp("bvneg", BV(w), atoms[id]))
		default:
			args = append(args, mkApp("bvmul", BV(w), mkBVbig(k, w), atoms[id]))
		}
	}
	if c.Sign() != 0 {
		args = append(args, mkBVbig(c, w))
	}
	if len(args) == 0 {
		return mkBV(0, w)
	}
	if len(args) == 1 {
		return args[0]
	}
	return mkApp("bvadd", BV(w), args...)
}

// bvNegate returns -a in the linear normal form.
func bvNegate(a *Term) *Term {
	w := a.sort.bv
	switch {
	case a.isConst():
		return mkBVbig(new(big.Int).Neg(a.c), w)
	case a.op == "bvneg":
		return a.args[0]
	case a.op == "bvadd":
		out := make([]*Term, len(a.args))
		for i, x := range a.args {
			out[i] = bvNegate(x)
		}
		return mkAdd(w, out...)
	case a.op == "ite":
		return Ite(a.args[0], bvNegate(a.args[1]), bvNegate(a.args[2]))
	case a.op == "bvmul" && len(a.args) == 2 && a.args[0].isConst():
		return mkAdd(w, mkApp("bvmul", a.sort, mkBVbig(new(big.Int).Neg(a.args[0].c), w), a.args[1]))
	}
	return mkApp("bvneg", a.sort, a)
}

func BvNeg(a *Term) *Term { return bvNegate(a) }
func BvNot(a *Term) *Term {
	if a.isConst() {
		return mkBVbig(new(big.Int).Xor(a.c, mask(a.sort.bv)), a.sort.bv)
	}
	return mkApp("bvnot", a.sort, a)
}

func BvCmp(op string, a, b *Term) *Term {
	if a.sort != b.sort {
		panic(fmt.Sprintf("BvCmp %s sort mismatch %s vs %s: %s , %s", op, a.sort.s, b.sort.s, a, b))
	}
	w := a.sort.bv
	if a.isConst() && b.isConst() {
		x, y := a.c, b.c
		switch op {
		case "bvult":
			return mkBool(x.Cmp(y) < 0)
		case "bvule":
			return mkBool(x.Cmp(y) <= 0)
		case "bvugt":
			return mkBool(x.Cmp(y) > 0)
		case "bvuge":
			return mkBool(x.Cmp(y) >= 0)
		case "bvslt":
			return mkBool(signed(x, w).Cmp(signed(y, w)) < 0)
		case "bvsle":
			return mkBool(signed(x, w).Cmp(signed(y, w)) <= 0)
		case "bvsgt":
			return mkBool(signed(x, w).Cmp(signed(y, w)) > 0)
		case "bvsge":
			return mkBool(signed(x, w).Cmp(signed(y, w)) >= 0)
		}
	}
	if a == b {
		switch op {
		case "bvult", "bvugt", "bvslt", "bvsgt":
			return False
		default:
			return True
		}
	}
	// normalise > and >= to < and <=
	switch op {
	case "bvugt":
		return mkApp("bvult", BoolS, b, a)
	case "bvuge":
		return mkApp("bvule", BoolS, b, a)
	case "bvsgt":
		return mkApp("bvslt", BoolS, b, a)
	case "bvsge":
		return mkApp("bvsle", BoolS, b, a)
	}
	return mkApp(op, BoolS, a, b)
}

func Extract(hi, lo int, a *Term) *Term {
	if lo == 0 && hi == a.sort.bv-1 {
		return a
	}
	if a.isConst() {
		r := new(big.Int).Rsh(a.c, uint(lo))
		return mkBVbig(r.And(r, mask(hi-lo+1)), hi-lo+1)
	}
	// extract of zero_extend within the original width
	if (a.op == "zero_extend" || a.op == "sign_extend") && hi < a.args[0].sort.bv {
		return Extract(hi, lo, a.args[0])
	}
	return intern(&Term{op: "extract", sort: BV(hi - lo + 1), args: []*Term{a}, p1: hi, p2: lo})
}

func ZExt(a *Term, w int) *Term {
	if a.sort.bv == w {
		return a
	}
	if a.sort.bv > w {
		return Extract(w-1, 0, a)
	}
	if a.isConst() {
		return mkBVbig(a.c, w)
	}
	return intern(&Term{op: "zero_extend", sort: BV(w), args: []*Term{a}, p1: w - a.sort.bv})
}

func SExt(a *Term, w int) *Term {
	if a.sort.bv == w {
		return a
	}
	if a.sort.bv > w {
		return Extract(w-1, 0, a)
	}
	if a.isConst() {
		return mkBVbig(signed(a.c, a.sort.bv), w)
	}
	return intern(&Term{op: "sign_extend", sort: BV(w), args: []*Term{a}, p1: w - a.sort.bv})
}

func Concat(a, b *Term) *Term {
	if a.isConst() && b.isConst() {
		r := new(big.Int).Lsh(a.c, uint(b.sort.bv))
		return mkBVbig(r.Or(r, b.c), a.sort.bv+b.sort.bv)
	}
	return mkApp("concat", BV(a.sort.bv+b.sort.bv), a, b)
}

func Select(a, i *Term) *Term {
	if a.sort.idx == nil {
		panic("select on non-array " + a.sort.s + " " + a.String())
	}
	if a.sort.idx != i.sort {
		panic("select idx sort mismatch " + a.sort.s + " / " + i.sort.s)
	}
	if i.op == "ite" && i.sort.bv == 64 {
		// conditional index: read each alternative (the alternatives are linear index terms)
		return Ite(i.args[0], Select(a, i.args[1]), Select(a, i.args[2]))
	}
	// read over write
	for a.op == "store" {
		j := a.args[1]
		if j == i {
			return a.args[2]
		}
		if j.isConst() && i.isConst() { // distinct constants
			a = a.args[0]
			continue
		}
		if distinctOffsets(i, j) {
			a = a.args[0]
			continue
		}
		if len(knownDistinct) > 0 && knownDistinct[pairKey(i, j)] {
			a = a.args[0]
			continue
		}
		break
	}
	if a.op == "constarr" {
		return a.args[0]
	}
	return mkApp("select", a.sort.elem, a, i)
}

// distinctOffsets recognises x+c1 vs x+c2 (c1!=c2) and x vs x+c (c!=0).
func distinctOffsets(i, j *Term) bool {
	bi, ci := splitOff(i)
	bj, cj := splitOff(j)
	if bi == bj && ci.Cmp(cj) != 0 {
		return true
	}
	return false
}

func splitOff(t *Term) (*Term, *big.Int) {
	if t.op == "bvadd" {
		last := t.args[len(t.args)-1]
		if last.isConst() {
			rest := t.args[:len(t.args)-1]
			if len(rest) == 1 {
				return rest[0], last.c
			}
			return mkApp("bvadd", t.sort, rest...), last.c
		}
	}
	if t.isConst() {
		return nil, t.c
	}
	return t, big.NewInt(0)
}

func Store(a, i, v *Term) *Term {
	if a.sort.idx != i.sort || a.sort.elem != v.sort {
		panic(fmt.Sprintf("store sort mismatch %s [%s] := %s", a.sort.s, i.sort.s, v.sort.s))
	}
	if a.op == "store" && a.args[1] == i {
		a = a.args[0]
	}
	return mkApp("store", a.sort, a, i, v)
}

func ConstArr(s *Sort, v *Term) *Term {
	return intern(&Term{op: "constarr", sort: s, args: []*Term{v}})
}

func Forall(vars []*Term, body *Term) *Term {
	if body == True || body == False {
		return body
	}
	t := intern(&Term{op: "forall", sort: BoolS, args: []*Term{body}, bvars: vars})
	t.bound = hasFreeBound(t)
	return t
}
func Exists(vars []*Term, body *Term) *Term {
	if body == True || body == False {
		return body
	}
	t := intern(&Term{op: "exists", sort: BoolS, args: []*Term{body}, bvars: vars})
	t.bound = hasFreeBound(t)
	return t
}

func hasFreeBound(t *Term) bool {
	fv := map[int]bool{}
	var walk func(x *Term, bnd map[int]bool) bool
	seen := map[int]bool{}
	walk = func(x *Term, bnd map[int]bool) bool {
		if !x.bound {
			return false
		}
		if x.op == "bound" {
			return !bnd[x.id]
		}
		if len(x.bvars) > 0 {
			nb := map[int]bool{}
			for k := range bnd {
				nb[k] = true
			}
			for _, v := range x.bvars {
				nb[v.id] = true
			}
			for _, a := range x.args {
				if walk(a, nb) {
					return true
				}
			}
			return false
		}
		_ = seen
		for _, a := range x.args {
			if walk(a, bnd) {
				return true
			}
		}
		return false
	}
	_ = fv
	return walk(t, map[int]bool{})
}

// UF application.
type UFDecl struct {
	name string
	args []*Sort
	res  *Sort
	def  *Term   // body for define-fun (may be nil: uninterpreted)
	prm  []*Term // bound params for define-fun
	rec  bool
	ord  int
}

var ufTab = map[string]*UFDecl{}
var ufOrd int

func declUF(name string, args []*Sort, res *Sort) *UFDecl {
	if d, ok := ufTab[name]; ok {
		return d
	}
	ufOrd++
	d := &UFDecl{name: name, args: args, res: res, ord: ufOrd}
	ufTab[name] = d
	return d
}

func App(d *UFDecl, args ...*Term) *Term {
	if len(args) != len(d.args) {
		panic("arity mismatch calling " + d.name)
	}
	for i, a := range args {
		if a.sort != d.args[i] {
			panic(fmt.Sprintf("arg %d sort mismatch calling %s: %s vs %s", i, d.name, a.sort.s, d.args[i].s))
		}
	}
	if len(args) == 0 {
		return intern(&Term{op: "uf", name: d.name, sort: d.res})
	}
	return intern(&Term{op: "uf", name: d.name, sort: d.res, args: args})
}

// substitution of bound/var terms (by id) in a term
func subst(t *Term, m map[int]*Term, memo map[int]*Term) *Term {
	if r, ok := m[t.id]; ok {
		return r
	}
	if len(t.args) == 0 {
		return t
	}
	if r, ok := memo[t.id]; ok {
		return r
	}
	na := make([]*Term, len(t.args))
	ch := false
	for i, a := range t.args {
		na[i] = subst(a, m, memo)
		if na[i] != a {
			ch = true
		}
	}
	var r *Term
	if !ch {
		r = t
	} else {
		r = rebuild(t, na)
	}
	memo[t.id] = r
	return r
}

func rebuild(t *Term, na []*Term) *Term {
	switch t.op {
	case "not":
		return Not(na[0])
	case "and":
		return And(na...)
	case "or":
		return Or(na...)
	case "=>":
		return Implies(na[0], na[1])
	case "ite":
		return Ite(na[0], na[1], na[2])
	case "=":
		return Eq(na[0], na[1])
	case "select":
		return Select(na[0], na[1])
	case "store":
		return Store(na[0], na[1], na[2])
	case "extract":
		return Extract(t.p1, t.p2, na[0])
	case "zero_extend":
		return ZExt(na[0], t.sort.bv)
	case "sign_extend":
		return SExt(na[0], t.sort.bv)
	case "concat":
		return Concat(na[0], na[1])
	case "bvnot":
		return BvNot(na[0])
	case "bvult", "bvule", "bvslt", "bvsle":
		return BvCmp(t.op, na[0], na[1])
	case "forall":
		return Forall(t.bvars, na[0])
	case "exists":
		return Exists(t.bvars, na[0])
	}
	if t.op == "bvadd" {
		return mkAdd(t.sort.bv, na...)
	}
	if t.op == "bvneg" {
		return bvNegate(na[0])
	}
	if strings.HasPrefix(t.op, "bv") && len(na) == 2 {
		return BvBin(t.op, na[0], na[1])
	}
	return intern(&Term{op: t.op, sort: t.sort, args: na, name: t.name, p1: t.p1, p2: t.p2, bvars: t.bvars})
}

// ---------- printing ----------

func (t *Term) String() string {
	var sb strings.Builder
	printTerm(&sb, t, nil)
	return sb.String()
}

func smtName(s string) string {
	ok := true
	for _, r := range s {
		if !(r >= 'a' && r <= 'z' || r >= 'A' && r <= 'Z' || r >= '0' && r <= '9' || strings.ContainsRune("_.$!~@%^&*+-/<>=?", r)) {
			ok = false
		}
	}
	if ok && len(s) > 0 && !(s[0] >= '0' && s[0] <= '9') {
		return s
	}
	return "|" + strings.ReplaceAll(strings.ReplaceAll(s, "|", "!"), "\\", "!") + "|"
}

func printTerm(sb *strings.Builder, t *Term, named map[int]string) {
	if named != nil {
		if n, ok := named[t.id]; ok {
			sb.WriteString(n)
			return
		}
	}
	switch t.op {
	case "true", "false":
		sb.WriteString(t.op)
	case "const":
		w := t.sort.bv
		if w%4 == 0 {
			s := t.c.Text(16)
			sb.WriteString("#x")
			for i := len(s); i < w/4; i++ {
				sb.WriteByte('0')
			}
			sb.WriteString(s)
		} else {
			s := t.c.Text(2)
			sb.WriteString("#b")
			for i := len(s); i < w; i++ {
				sb.WriteByte('0')
			}
			sb.WriteString(s)
		}
	case "var", "bound":
		sb.WriteString(smtName(t.name))
	case "uf":
		if len(t.args) == 0 {
			sb.WriteString(smtName(t.name))
			return
		}
		sb.WriteString("(" + smtName(t.name))
		for _, a := range t.args {
			sb.WriteByte(' ')
			printTerm(sb, a, named)
		}
		sb.WriteByte(')')
	case "extract":
		fmt.Fprintf(sb, "((_ extract %d %d) ", t.p1, t.p2)
		printTerm(sb, t.args[0], named)
		sb.WriteByte(')')
	case "zero_extend", "sign_extend":
		fmt.Fprintf(sb, "((_ %s %d) ", t.op, t.p1)
		printTerm(sb, t.args[0], named)
		sb.WriteByte(')')
	case "constarr":
		sb.WriteString("((as const " + t.sort.s + ") ")
		printTerm(sb, t.args[0], named)
		sb.WriteByte(')')
	case "forall", "exists":
		sb.WriteString("(" + t.op + " (")
		for _, v := range t.bvars {
			sb.WriteString("(" + smtName(v.name) + " " + v.sort.s + ")")
		}
		sb.WriteString(") ")
		printTerm(sb, t.args[0], named)
		sb.WriteByte(')')
	default:
		if t.op == "bvadd" && len(t.args) > 2 {
			// right-nested binary additions: (a0 + (a1 + (a2 + ...))). With the oldest term (typically a
			// slice offset) outermost, quantifier patterns of the form (off + j) match by E-matching.
			for i, a := range t.args {
				if i < len(t.args)-1 {
					sb.WriteString("(bvadd ")
				}
				printTerm(sb, a, named)
				if i < len(t.args)-1 {
					sb.WriteByte(' ')
				}
			}
			for i := 1; i < len(t.args); i++ {
				sb.WriteByte(')')
			}
			return
		}
		sb.WriteString("(" + t.op)
		for _, a := range t.args {
			sb.WriteByte(' ')
			printTerm(sb, a, named)
		}
		sb.WriteByte(')')
	}
}

// Script renders a satisfiability query for the conjunction of asserts.
func Script(asserts []*Term, wantModel bool, logic string) string {
	var sb strings.Builder
	if wantModel {
		sb.WriteString("(set-option :produce-models true)\n")
	}
	if logic != "" {
		sb.WriteString("(set-logic " + logic + ")\n")
	}
	// collect
	refc := map[int]int{}
	vars := map[int]*Term{}
	ufs := map[string]*UFDecl{}
	var order []*Term
	seen := map[int]bool{}
	var walk func(t *Term)
	var walkUF func(d *UFDecl)
	walkUF = func(d *UFDecl) {
		if ufs[d.name] != nil {
			return
		}
		ufs[d.name] = d
		if d.def != nil {
			walk(d.def)
		}
	}
	walk = func(t *Term) {
		refc[t.id]++
		if seen[t.id] {
			return
		}
		seen[t.id] = true
		if t.op == "var" {
			vars[t.id] = t
		}
		if t.op == "uf" {
			walkUF(ufTab[t.name])
		}
		for _, a := range t.args {
			walk(a)
		}
		order = append(order, t)
	}
	// walk UF bodies first so shared nodes inside them are not hoisted above the definitions
	for _, a := range asserts {
		walk(a)
	}
	// declarations
	var vs []*Term
	for _, v := range vars {
		vs = append(vs, v)
	}
	sort.Slice(vs, func(i, j int) bool { return vs[i].id < vs[j].id })
	for _, v := range vs {
		sb.WriteString("(declare-fun " + smtName(v.name) + " () " + v.sort.s + ")\n")
	}
	var ds []*UFDecl
	for _, d := range ufs {
		ds = append(ds, d)
	}
	sort.Slice(ds, func(i, j int) bool { return ds[i].ord < ds[j].ord })
	inUF := map[int]bool{}
	for _, d := range ds {
		if d.def != nil {
			markAll(d.def, inUF)
		}
	}
	for _, d := range ds {
		if d.def == nil {
			sb.WriteString("(declare-fun " + smtName(d.name) + " (")
			for i, a := range d.args {
				if i > 0 {
					sb.WriteByte(' ')
				}
				sb.WriteString(a.s)
			}
			sb.WriteString(") " + d.res.s + ")\n")
		} else {
			kw := "define-fun"
			if d.rec {
				kw = "define-fun-rec"
			}
			sb.WriteString("(" + kw + " " + smtName(d.name) + " (")
			for _, p := range d.prm {
				sb.WriteString("(" + smtName(p.name) + " " + p.sort.s + ")")
			}
			sb.WriteString(") " + d.res.s + " ")
			printTerm(&sb, d.def, nil)
			sb.WriteString(")\n")
		}
	}
	// hoist shared closed nodes
	named := map[int]string{}
	for _, t := range order {
		if t.bound || inUF[t.id] || len(t.args) == 0 {
			continue
		}
		if refc[t.id] >= 2 {
			n := fmt.Sprintf("n!%d", t.id)
			sb.WriteString("(define-fun " + n + " () " + t.sort.s + " ")
			// print body without replacing itself
			printTop(&sb, t, named)
			sb.WriteString(")\n")
			named[t.id] = n
		}
	}
	for _, a := range asserts {
		sb.WriteString("(assert ")
		printTerm(&sb, a, named)
		sb.WriteString(")\n")
	}
	sb.WriteString("(check-sat)\n")
	if wantModel {
		sb.WriteString("(get-model)\n")
	}
	return sb.String()
}

func markAll(t *Term, m map[int]bool) {
	if m[t.id] {
		return
	}
	m[t.id] = true
	for _, a := range t.args {
		markAll(a, m)
	}
}

func printTop(sb *strings.Builder, t *Term, named map[int]string) {
	// like printTerm but never substitutes t itself
	saved, had := named[t.id]
	if had {
		delete(named, t.id)
	}
	printTerm(sb, t, named)
	if had {
		named[t.id] = saved
	}
}

// ArrEq decides equality of two store chains over the same root array whose indices are all of the
// form base+constant (same base): the result is the conjunction of the element equalities at the
// written offsets. Falls back to extensional equality otherwise.
func ArrEq(a, b *Term) *Term {
	if a == b {
		return True
	}
	type upd struct {
		idx *Term
		val *Term
	}
	collect := func(t *Term) (*Term, []upd) {
		var us []upd
		for t.op == "store" {
			us = append(us, upd{t.args[1], t.args[2]})
			t = t.args[0]
		}
		return t, us
	}
	ra, ua := collect(a)
	rb, ub := collect(b)
	if ra != rb || len(ua)+len(ub) == 0 || len(ua)+len(ub) > 400 {
		return Eq(a, b)
	}
	var base *Term
	haveBase := false
	offs := map[string]*Term{} // offset const -> index term
	add := func(us []upd) bool {
		for _, u := range us {
			bt, c := splitOff(u.idx)
			if !haveBase {
				base, haveBase = bt, true
			} else if bt != base {
				return false
			}
			offs[c.Text(16)] = u.idx
		}
		return true
	}
	if !add(ua) || !add(ub) {
		return Eq(a, b)
	}
	var cs []*Term
	for _, ix := range offs {
		cs = append(cs, Eq(Select(a, ix), Select(b, ix)))
	}
	return And(cs...)
}

// Signed forms of index and length bounds. Go's index and length values are signed ints; stating the
// bounds with signed comparisons only (0 <= i, i < n) instead of the unsigned shortcut (i <u n) keeps a
// query in one comparison domain, which the bit-blasting solvers decide orders of magnitude faster.
func idxIn(i, n *Term) *Term { // 0 <= i < n
	return And(BvCmp("bvsle", mkBV(0, i.sort.bv), i), BvCmp("bvslt", i, n))
}
func lenLe(a, b *Term) *Term { // 0 <= a <= b
	return And(BvCmp("bvsle", mkBV(0, a.sort.bv), a), BvCmp("bvsle", a, b))
}

// knownDistinct holds pairs of reference terms that the preconditions of the function being verified
// state to be different (e.g. !sameArray(a, b)). Every path formula of that function contains the
// precondition, so reading through a store at the other reference is valid on all of them. The table is
// reset per target function and restored per obligation while instances are generated.
var knownDistinct = map[[2]int]bool{}

func pairKey(a, b *Term) [2]int {
	if a.id < b.id {
		return [2]int{a.id, b.id}
	}
	return [2]int{b.id, a.id}
}

func recordDistinct(t *Term) {
	switch t.op {
	case "and":
		for _, a := range t.args {
			recordDistinct(a)
		}
	case "not":
		e := t.args[0]
		if e.op == "=" && e.args[0].sort == RefS && !e.args[0].isConst() && !e.args[1].isConst() {
			knownDistinct[pairKey(e.args[0], e.args[1])] = true
		}
	}
}
