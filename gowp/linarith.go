package main

// Bounds-directed normalisation of 64-bit comparisons (formula-level preprocessing, applied to every
// path formula just before it is printed).
//
// Index arithmetic in Go is arithmetic on 64-bit ints whose values are tiny (lengths, offsets and
// indices are below 2^40, A6). A bit-blasting solver does not see that: to refute
//     off+wi+j < off+wi+n   and   n <= j
// it has to reason about the carry chains of four 64-bit adders. The preprocessing below derives
// intervals for the atoms of a formula from its own top-level conjuncts (0 <= x, x <= C, x <= y), and
// rewrites a comparison s <= t into 0 <= t-s whenever the intervals show that s, t and t-s are computed
// without wrap-around; t-s is built in the linear normal form of term.go, so the common summands cancel
// (0 <= n-j-1 and 0 <= j-n for the example: syntactically complementary literals).
//
// Soundness: the conjuncts the intervals are read from are kept unchanged in the result; in every model
// of them the atoms lie in their intervals, the rewritten comparisons are then equivalent to the
// original ones, hence the result is equivalent to the input.

import (
	"math/big"
	"sort"
)

type ival struct{ lo, hi *big.Int } // signed values; nil = unknown

var (
	big0     = big.NewInt(0)
	big1     = big.NewInt(1)
	safeHi   = new(big.Int).Sub(new(big.Int).Lsh(big.NewInt(1), 63), big.NewInt(1))
	safeLo   = new(big.Int).Neg(new(big.Int).Lsh(big.NewInt(1), 63))
	two64    = new(big.Int).Lsh(big.NewInt(1), 64)
	two63    = new(big.Int).Lsh(big.NewInt(1), 63)
	linStats struct{ rewritten int }
)

func signed64(c *big.Int) *big.Int {
	if c.Cmp(two63) >= 0 {
		return new(big.Int).Sub(c, two64)
	}
	return new(big.Int).Set(c)
}

type linForm struct {
	ids   []int
	coef  map[int]*big.Int // signed
	atoms map[int]*Term
	c     *big.Int // signed
}

// linDecompose splits a 64-bit term into sum(coef*atom) + c with coefficients taken modulo 2^64 and
// read as signed numbers.
func linDecompose(t *Term) *linForm {
	lf := &linForm{coef: map[int]*big.Int{}, atoms: map[int]*Term{}, c: new(big.Int)}
	var add func(t *Term, k *big.Int)
	add = func(t *Term, k *big.Int) {
		switch {
		case t.isConst():
			lf.c.Add(lf.c, new(big.Int).Mul(k, t.c))
			return
		case t.op == "bvadd":
			for _, a := range t.args {
				add(a, k)
			}
			return
		case t.op == "bvneg":
			add(t.args[0], new(big.Int).Neg(k))
			return
		case t.op == "bvmul" && len(t.args) == 2 && t.args[0].isConst():
			add(t.args[1], new(big.Int).Mul(k, t.args[0].c))
			return
		case t.op == "bvmul" && len(t.args) == 2 && t.args[1].isConst():
			add(t.args[0], new(big.Int).Mul(k, t.args[1].c))
			return
		}
		if lf.coef[t.id] == nil {
			lf.coef[t.id] = new(big.Int)
			lf.atoms[t.id] = t
		}
		lf.coef[t.id].Add(lf.coef[t.id], k)
	}
	add(t, big1)
	m := mask(64)
	lf.c = signed64(new(big.Int).And(lf.c, m))
	for id, k := range lf.coef {
		kk := signed64(new(big.Int).And(k, m))
		if kk.Sign() == 0 {
			delete(lf.coef, id)
			delete(lf.atoms, id)
			continue
		}
		lf.coef[id] = kk
		lf.ids = append(lf.ids, id)
	}
	sort.Ints(lf.ids)
	return lf
}

type boundsCtx struct {
	b    map[int]*ival
	memo map[int]*ival
}

// atomInterval: interval of a non-sum term.
func (bc *boundsCtx) atomInterval(t *Term) *ival {
	if v, ok := bc.b[t.id]; ok && v.lo != nil && v.hi != nil {
		return v
	}
	var intr *ival
	switch t.op {
	case "zero_extend":
		w := t.args[0].sort.bv
		if w < 62 {
			intr = &ival{big.NewInt(0), new(big.Int).Sub(new(big.Int).Lsh(big1, uint(w)), big1)}
		}
	case "ite":
		a, b := bc.interval(t.args[1]), bc.interval(t.args[2])
		if a != nil && b != nil {
			lo, hi := a.lo, a.hi
			if b.lo.Cmp(lo) < 0 {
				lo = b.lo
			}
			if b.hi.Cmp(hi) > 0 {
				hi = b.hi
			}
			intr = &ival{lo, hi}
		}
	case "bvand":
		for _, a := range t.args {
			if a.isConst() && a.c.Cmp(two63) < 0 {
				intr = &ival{big.NewInt(0), new(big.Int).Set(a.c)}
			}
		}
	case "bvurem":
		if t.args[1].isConst() && t.args[1].c.Sign() > 0 && t.args[1].c.Cmp(two63) < 0 {
			intr = &ival{big.NewInt(0), new(big.Int).Sub(t.args[1].c, big1)}
		}
	case "bvlshr":
		if t.args[1].isConst() && t.args[1].c.Sign() > 0 && t.args[1].c.Cmp(big.NewInt(64)) < 0 {
			k := uint(t.args[1].c.Int64())
			intr = &ival{big.NewInt(0), new(big.Int).Sub(new(big.Int).Lsh(big1, 64-k), big1)}
			if a := bc.interval(t.args[0]); a != nil && a.lo.Sign() >= 0 {
				intr = &ival{new(big.Int).Rsh(a.lo, k), new(big.Int).Rsh(a.hi, k)}
			}
		}
	}
	if intr == nil {
		intr = &ival{safeLo, safeHi} // the type's own range
	}
	// combine an intrinsic interval with a partially known declared one
	if v, ok := bc.b[t.id]; ok && intr != nil {
		lo, hi := intr.lo, intr.hi
		if v.lo != nil && v.lo.Cmp(lo) > 0 {
			lo = v.lo
		}
		if v.hi != nil && v.hi.Cmp(hi) < 0 {
			hi = v.hi
		}
		return &ival{lo, hi}
	}
	return intr
}

// interval of a 64-bit term evaluated over the integers (nil if some atom is unbounded or the result
// leaves the safe range, in which case the bit-vector value may differ from the integer value).
func (bc *boundsCtx) interval(t *Term) *ival {
	if t.sort.bv != 64 {
		return nil
	}
	if v, ok := bc.memo[t.id]; ok {
		return v
	}
	bc.memo[t.id] = nil // cycle guard (terms are DAGs, so only for safety)
	r := bc.intervalLF(linDecompose(t))
	bc.memo[t.id] = r
	return r
}

func (bc *boundsCtx) intervalLF(lf *linForm) *ival {
	lo, hi := new(big.Int).Set(lf.c), new(big.Int).Set(lf.c)
	for _, id := range lf.ids {
		a := lf.atoms[id]
		if a.bound {
			return nil
		}
		iv := bc.atomInterval(a)
		if iv == nil {
			return nil
		}
		k := lf.coef[id]
		x, y := new(big.Int).Mul(k, iv.lo), new(big.Int).Mul(k, iv.hi)
		if k.Sign() < 0 {
			x, y = y, x
		}
		lo.Add(lo, x)
		hi.Add(hi, y)
	}
	if lo.Cmp(safeLo) < 0 || hi.Cmp(safeHi) > 0 {
		return nil
	}
	return &ival{lo, hi}
}

// flattenConj lists the conjuncts asserted by f.
func flattenConj(f *Term, out *[]*Term) {
	switch f.op {
	case "and":
		for _, a := range f.args {
			flattenConj(a, out)
		}
		return
	case "not":
		g := f.args[0]
		switch g.op {
		case "=>":
			flattenConj(g.args[0], out)
			flattenConj(Not(g.args[1]), out)
			return
		case "or":
			for _, a := range g.args {
				flattenConj(Not(a), out)
			}
			return
		case "not":
			flattenConj(g.args[0], out)
			return
		}
	}
	*out = append(*out, f)
}

func isAtom64(t *Term) bool {
	return t.sort.bv == 64 && !t.isConst() && !t.bound && t.op != "bvadd" && t.op != "bvneg" && t.op != "bvmul"
}

// boundSource classifies a conjunct as a source of bounds: (x, y, strict, ok) meaning x <= y or x < y over
// signed values, where each side is a constant or an atom.
func boundSource(c *Term) (x, y *Term, strict, ok bool) {
	neg := false
	if c.op == "not" {
		neg = true
		c = c.args[0]
	}
	switch c.op {
	case "bvsle", "bvslt":
	default:
		return nil, nil, false, false
	}
	a, b := c.args[0], c.args[1]
	if a.sort.bv != 64 {
		return nil, nil, false, false
	}
	side := func(t *Term) bool {
		if t.isConst() || (isAtom64(t) && t.op != "ite") {
			return true
		}
		_, _, ok := atomPlusConst(t)
		return ok
	}
	if !side(a) || !side(b) || (a.isConst() && b.isConst()) {
		return nil, nil, false, false
	}
	strict = c.op == "bvslt"
	if neg {
		// not (a <= b) == b < a ; not (a < b) == b <= a
		return b, a, !strict, true
	}
	return a, b, strict, true
}

func collectBounds(conj []*Term) (*boundsCtx, map[int]bool) {
	bc := &boundsCtx{b: map[int]*ival{}, memo: map[int]*ival{}}
	sources := map[int]bool{}
	type rel struct {
		x, y   *Term
		strict bool
	}
	var rels []rel
	get := func(t *Term) *ival {
		v := bc.b[t.id]
		if v == nil {
			v = &ival{}
			bc.b[t.id] = v
		}
		return v
	}
	// sums "atom + c" that occur as a side of a bound (rangeindex+1 <= len): the sum is bounded like an atom,
	// and once both of its bounds are known the atom's interval follows exactly (atom = sum - c modulo 2^64,
	// and the sum's value is known not to be near the wrap-around)
	type pseudoT struct {
		sum, atom *Term
		c         *big.Int
	}
	pseudo := map[int]pseudoT{}
	for _, c := range conj {
		if x, y, strict, ok := boundSource(c); ok {
			sources[c.id] = true
			rels = append(rels, rel{x, y, strict})
			for _, t := range []*Term{x, y} {
				if a, k, ok := atomPlusConst(t); ok {
					pseudo[t.id] = pseudoT{t, a, k}
				}
			}
		}
	}
	adj := func(strict bool) *big.Int {
		if strict {
			return big1
		}
		return big0
	}
	for round := 0; round < 6; round++ {
		changed := false
		for _, r := range rels {
			// x (<|<=) y
			var xlo, yhi *big.Int
			if r.x.isConst() {
				xlo = signed64(r.x.c)
			} else if iv := bc.atomInterval(r.x); iv != nil {
				xlo = iv.lo
			} else if v := bc.b[r.x.id]; v != nil {
				xlo = v.lo
			}
			if r.y.isConst() {
				yhi = signed64(r.y.c)
			} else if iv := bc.atomInterval(r.y); iv != nil {
				yhi = iv.hi
			} else if v := bc.b[r.y.id]; v != nil {
				yhi = v.hi
			}
			if xlo != nil && !r.y.isConst() {
				nl := new(big.Int).Add(xlo, adj(r.strict))
				v := get(r.y)
				if v.lo == nil || nl.Cmp(v.lo) > 0 {
					v.lo = nl
					changed = true
				}
			}
			if yhi != nil && !r.x.isConst() {
				nh := new(big.Int).Sub(yhi, adj(r.strict))
				v := get(r.x)
				if v.hi == nil || nh.Cmp(v.hi) < 0 {
					v.hi = nh
					changed = true
				}
			}
		}
		for _, p := range pseudo {
			if v := bc.b[p.sum.id]; v != nil && v.lo != nil && v.hi != nil {
				lo, hi := new(big.Int).Sub(v.lo, p.c), new(big.Int).Sub(v.hi, p.c)
				if lo.Cmp(safeLo) >= 0 && hi.Cmp(safeHi) <= 0 {
					a := get(p.atom)
					if a.lo == nil || lo.Cmp(a.lo) > 0 {
						a.lo = lo
						changed = true
					}
					if a.hi == nil || hi.Cmp(a.hi) < 0 {
						a.hi = hi
						changed = true
					}
				}
			}
			if a := bc.b[p.atom.id]; a != nil && a.lo != nil && a.hi != nil {
				lo, hi := new(big.Int).Add(a.lo, p.c), new(big.Int).Add(a.hi, p.c)
				if lo.Cmp(safeLo) >= 0 && hi.Cmp(safeHi) <= 0 {
					v := get(p.sum)
					if v.lo == nil || lo.Cmp(v.lo) > 0 {
						v.lo = lo
						changed = true
					}
					if v.hi == nil || hi.Cmp(v.hi) < 0 {
						v.hi = hi
						changed = true
					}
				}
			}
		}
		bc.memo = map[int]*ival{}
		if !changed {
			break
		}
	}
	bc.memo = map[int]*ival{}
	return bc, sources
}

// lfTerm rebuilds the term of a linear form.
func lfTerm(l *linForm) *Term {
	var xs []*Term
	for _, id := range l.ids {
		k := l.coef[id]
		a := l.atoms[id]
		switch {
		case k.Cmp(big1) == 0:
			xs = append(xs, a)
		case k.Cmp(big.NewInt(-1)) == 0:
			xs = append(xs, mkApp("bvneg", a.sort, a))
		default:
			xs = append(xs, mkApp("bvmul", a.sort, mkBVbig(k, 64), a))
		}
	}
	xs = append(xs, mkBVbig(l.c, 64))
	return mkAdd(64, xs...)
}

// geZero builds the canonical formula for "e >= 0" (e is known not to wrap): a conditional e is split
// into its alternatives; for a sum the form whose first atom has a positive coefficient is used, negated if
// necessary, so that a comparison and its negation become complementary literals.
func (bc *boundsCtx) geZero(e *Term, depth int) *Term {
	if e.isConst() {
		return mkBool(signed64(e.c).Sign() >= 0)
	}
	if e.op == "ite" && depth < 6 {
		return Ite(e.args[0], bc.geZero(e.args[1], depth+1), bc.geZero(e.args[2], depth+1))
	}
	lf := linDecompose(e)
	if iv := bc.intervalLF(lf); iv != nil {
		if iv.lo.Sign() >= 0 {
			return True
		}
		if iv.hi.Sign() < 0 {
			return False
		}
		// common factor: g*S + c >= 0 over the integers iff S + floor(c/g) >= 0 (valid because the value is
		// known not to wrap); e.g. 10^9*a - 10^9*b - 1 >= 0 becomes a - b - 1 >= 0
		g := new(big.Int)
		for _, id := range lf.ids {
			g.GCD(nil, nil, g, new(big.Int).Abs(lf.coef[id]))
		}
		if g.Cmp(big1) > 0 {
			n := &linForm{ids: lf.ids, coef: map[int]*big.Int{}, atoms: lf.atoms}
			for id, k := range lf.coef {
				n.coef[id] = new(big.Int).Quo(k, g)
			}
			q, m := new(big.Int).DivMod(lf.c, g, new(big.Int)) // Euclidean: m >= 0, so q is the floor
			_ = m
			n.c = q
			lf = n
		}
	}
	if len(lf.ids) > 0 && lf.coef[lf.ids[0]].Sign() < 0 {
		// e >= 0  ==  not (-e-1 >= 0)
		n := &linForm{ids: lf.ids, coef: map[int]*big.Int{}, atoms: lf.atoms, c: new(big.Int).Sub(new(big.Int).Neg(lf.c), big1)}
		for id, k := range lf.coef {
			n.coef[id] = new(big.Int).Neg(k)
		}
		return Not(BvCmp("bvsle", mkBV(0, 64), lfTerm(n)))
	}
	return BvCmp("bvsle", mkBV(0, 64), lfTerm(lf))
}

// normalizeComparisons rewrites f as described at the top of the file.
func normalizeComparisons(f *Term) *Term {
	var conj []*Term
	flattenConj(f, &conj)
	bc, sources := collectBounds(conj)
	memo := map[int]*Term{}
	var rw func(t *Term) *Term
	rw = func(t *Term) *Term {
		if r, ok := memo[t.id]; ok {
			return r
		}
		var r *Term
		switch {
		case len(t.args) == 0, t.op == "forall", t.op == "exists":
			r = t
		case t.sort == BoolS && (t.op == "bvsle" || t.op == "bvslt" || t.op == "bvule" || t.op == "bvult") && t.args[0].sort.bv == 64:
			a, b := rw(t.args[0]), rw(t.args[1])
			if a != t.args[0] || b != t.args[1] {
				t = BvCmp(t.op, a, b)
			}
			if t.op == "bvsle" || t.op == "bvslt" || t.op == "bvule" || t.op == "bvult" {
				r = bc.rewriteCmp(t)
			} else {
				r = t
			}
		case (t.op == "bvsdiv" || t.op == "bvudiv" || t.op == "bvsrem" || t.op == "bvurem") && t.sort.bv == 64 && t.args[1].isConst() && isPow2(t.args[1].c):
			// division of a non-negative value by 2^k is a shift (wiring for the bit-blaster, and its
			// interval is known), the remainder a mask
			a := rw(t.args[0])
			sh := uint(t.args[1].c.BitLen() - 1)
			iv := bc.interval(a)
			if (t.op == "bvudiv" || t.op == "bvurem") || (iv != nil && iv.lo.Sign() >= 0) {
				if t.op == "bvsdiv" || t.op == "bvudiv" {
					r = BvBin("bvlshr", a, mkBV(int64(sh), 64))
				} else {
					r = BvBin("bvand", a, mkBVbig(new(big.Int).Sub(t.args[1].c, big1), 64))
				}
			} else if a != t.args[0] {
				r = BvBin(t.op, a, t.args[1])
			} else {
				r = t
			}
		case t.op == "=" && t.args[0].sort.bv == 64 && !t.bound && (isSum(t.args[0]) || isSum(t.args[1])):
			a, b := rw(t.args[0]), rw(t.args[1])
			r = eqZero(mkAdd(64, a, bvNegate(b)), 0)
		default:
			na := make([]*Term, len(t.args))
			same := true
			for i, a := range t.args {
				na[i] = rw(a)
				if na[i] != a {
					same = false
				}
			}
			if same {
				r = t
			} else {
				r = rebuild(t, na)
			}
		}
		memo[t.id] = r
		return r
	}
	out := make([]*Term, 0, len(conj))
	for _, c := range conj {
		if sources[c.id] {
			out = append(out, c)
			continue
		}
		out = append(out, rw(c))
	}
	return And(out...)
}

func (bc *boundsCtx) rewriteCmp(t *Term) *Term {
	s, u := t.args[0], t.args[1]
	is, iu := bc.interval(s), bc.interval(u)
	if is == nil || iu == nil {
		return t
	}
	if t.op == "bvule" || t.op == "bvult" {
		// unsigned and signed order agree on non-negative values
		if is.lo.Sign() < 0 || iu.lo.Sign() < 0 {
			return t
		}
	}
	strict := t.op == "bvslt" || t.op == "bvult"
	// disjoint or touching intervals decide the comparison
	if c := is.hi.Cmp(iu.lo); c < 0 || (c == 0 && !strict) {
		return True
	}
	if c := iu.hi.Cmp(is.lo); c < 0 || (c == 0 && strict) {
		return False
	}
	d := linDecompose(mkAdd(64, u, bvNegate(s))) // u - s
	if t.op == "bvslt" || t.op == "bvult" {
		d.c = new(big.Int).Sub(d.c, big1) // s < u  ==  u - s - 1 >= 0
	}
	id := bc.intervalLF(d)
	if id == nil {
		return t
	}
	linStats.rewritten++
	if id.lo.Sign() >= 0 {
		return True
	}
	if id.hi.Sign() < 0 {
		return False
	}
	return bc.geZero(lfTerm(d), 0)
}

func isSum(t *Term) bool {
	switch t.op {
	case "bvadd", "bvneg":
		return true
	case "bvmul":
		return len(t.args) == 2 && (t.args[0].isConst() || t.args[1].isConst())
	case "ite":
		return isSum(t.args[1]) || isSum(t.args[2])
	}
	return false
}

// eqZero builds the canonical formula for "e == 0" (valid modulo 2^64 without any bounds): a conditional e
// is split into its alternatives; a sum is given a positive leading coefficient (e == 0 iff -e == 0), so
// that s == t and t + x == s + x become the same literal.
func eqZero(e *Term, depth int) *Term {
	if e.isConst() {
		return mkBool(e.c.Sign() == 0)
	}
	if e.op == "ite" && depth < 6 {
		return Ite(e.args[0], eqZero(e.args[1], depth+1), eqZero(e.args[2], depth+1))
	}
	lf := linDecompose(e)
	if len(lf.ids) > 0 && lf.coef[lf.ids[0]].Sign() < 0 {
		n := &linForm{ids: lf.ids, coef: map[int]*big.Int{}, atoms: lf.atoms, c: new(big.Int).Neg(lf.c)}
		for id, k := range lf.coef {
			n.coef[id] = new(big.Int).Neg(k)
		}
		lf = n
	}
	if len(lf.ids) == 1 && lf.coef[lf.ids[0]].Cmp(big1) == 0 {
		// x + c == 0: keep the readable form x == -c
		return Eq(lf.atoms[lf.ids[0]], mkBVbig(new(big.Int).Neg(lf.c), 64))
	}
	if len(lf.ids) == 2 && lf.c.Sign() == 0 && lf.coef[lf.ids[0]].Cmp(big1) == 0 && lf.coef[lf.ids[1]].Cmp(big.NewInt(-1)) == 0 {
		return Eq(lf.atoms[lf.ids[0]], lf.atoms[lf.ids[1]])
	}
	return Eq(lfTerm(lf), mkBV(0, 64))
}

// splitOnConditions turns a path formula whose conditionals (min, max, wrap-around tests) share few
// conditions into one formula per truth assignment of the most frequent ones: c AND f[c:=true] and
// (not c) AND f[c:=false]. The disjunction of the results is equivalent to f. With the conditions
// fixed, the equalities inside the conditionals become top-level facts the solvers can substitute.
func splitOnConditions(f *Term, depth int) []*Term {
	if depth <= 0 {
		return []*Term{f}
	}
	cnt := map[int]int{}
	atoms := map[int]*Term{}
	seen := map[int]bool{}
	var walk func(t *Term)
	walk = func(t *Term) {
		if seen[t.id] {
			return
		}
		seen[t.id] = true
		if t.op == "forall" || t.op == "exists" {
			return
		}
		if t.op == "ite" {
			c := t.args[0]
			for c.op == "not" {
				c = c.args[0]
			}
			if !c.bound && !c.isConst() && c.op != "and" && c.op != "or" && c.op != "ite" {
				cnt[c.id]++
				atoms[c.id] = c
			}
		}
		for _, a := range t.args {
			walk(a)
		}
	}
	walk(f)
	best, bestN := -1, 2
	for id, n := range cnt {
		if n > bestN || (n == bestN && best >= 0 && id < best) {
			best, bestN = id, n
		}
	}
	if best < 0 {
		return []*Term{f}
	}
	c := atoms[best]
	ft := And(c, subst(f, map[int]*Term{c.id: True}, map[int]*Term{}))
	ff := And(Not(c), subst(f, map[int]*Term{c.id: False}, map[int]*Term{}))
	var out []*Term
	for _, g := range []*Term{ft, ff} {
		if g == False {
			continue
		}
		out = append(out, splitOnConditions(g, depth-1)...)
	}
	return out
}

func isPow2(c *big.Int) bool {
	if c.Sign() <= 0 || c.Cmp(two63) >= 0 {
		return false
	}
	return new(big.Int).And(c, new(big.Int).Sub(c, big1)).Sign() == 0 && c.Cmp(big1) > 0
}

// atomPlusConst recognises a sum "atom + c" (coefficient 1, c != 0).
func atomPlusConst(t *Term) (*Term, *big.Int, bool) {
	if t.sort.bv != 64 || t.op != "bvadd" || t.bound {
		return nil, nil, false
	}
	lf := linDecompose(t)
	if len(lf.ids) != 1 || lf.coef[lf.ids[0]].Cmp(big1) != 0 || lf.c.Sign() == 0 {
		return nil, nil, false
	}
	a := lf.atoms[lf.ids[0]]
	if !isAtom64(a) || a.op == "ite" {
		return nil, nil, false
	}
	return a, lf.c, true
}
