package main

// Value shapes: every Go value is a flat list of leaf terms in a canonical
// order derived from its type. Heap regions are the same lists lifted by
// (Array Ref ·); fixed arrays and slice backings lift by (Array BV64 ·).

import (
	"fmt"
	"go/types"
	"strings"

	"golang.org/x/tools/go/ssa"
)

type Leaf struct {
	path string // e.g. ".hopField.ConsIngress" or ".Mac[]" ("[]" marks an array level)
	sort *Sort
	ty   types.Type // Go type of the scalar at this leaf (after all index levels)
	kind string     // "", "arr","off","len","cap","tag","val"
}

var leafCache = map[string][]Leaf{}

func qual(p *types.Package) string { return p.Path() }

func typeKey(t types.Type) string { return types.TypeString(t, qual) }

func intWidth(b *types.Basic) (int, bool) { // width, signed
	switch b.Kind() {
	case types.Int8:
		return 8, true
	case types.Int16:
		return 16, true
	case types.Int32:
		return 32, true
	case types.Int64, types.Int, types.UntypedInt, types.UntypedRune:
		return 64, true
	case types.Uint8:
		return 8, false
	case types.Uint16:
		return 16, false
	case types.Uint32:
		return 32, false
	case types.Uint64, types.Uint, types.Uintptr:
		return 64, false
	}
	return 0, false
}

func isSigned(t types.Type) bool {
	if b, ok := t.Underlying().(*types.Basic); ok {
		_, s := intWidth(b)
		return s
	}
	return false
}

func isInt(t types.Type) bool {
	if b, ok := t.Underlying().(*types.Basic); ok {
		return b.Info()&types.IsInteger != 0
	}
	return false
}

// scalarSort returns the sort for single-leaf types, or nil.
func scalarSort(t types.Type) *Sort {
	switch u := t.Underlying().(type) {
	case *types.Basic:
		if u.Info()&types.IsBoolean != 0 {
			return BoolS
		}
		if u.Info()&types.IsInteger != 0 {
			w, _ := intWidth(u)
			return BV(w)
		}
		if u.Info()&types.IsString != 0 {
			return BV(32)
		}
		if u.Kind() == types.UnsafePointer {
			return RefS
		}
		if u.Info()&types.IsFloat != 0 {
			return BV(64) // opaque
		}
		if u.Info()&types.IsComplex != 0 {
			return BV(64)
		}
		if u.Kind() == types.UntypedNil {
			return RefS
		}
	case *types.Pointer, *types.Map, *types.Chan, *types.Signature:
		return RefS
	}
	return nil
}

func leavesOf(t types.Type) []Leaf {
	k := typeKey(t)
	if l, ok := leafCache[k]; ok {
		return l
	}
	leafCache[k] = nil // recursion guard (recursive types go through pointers, so fine)
	var out []Leaf
	if s := scalarSort(t); s != nil {
		out = []Leaf{{path: "", sort: s, ty: t}}
	} else {
		switch u := t.Underlying().(type) {
		case *types.Slice:
			out = []Leaf{{".arr", RefS, t, "arr"}, {".off", I64, t, "off"}, {".len", I64, t, "len"}, {".cap", I64, t, "cap"}}
		case *types.Interface:
			out = []Leaf{{".tag", BV(32), t, "tag"}, {".val", I64, t, "val"}}
		case *types.Struct:
			for i := 0; i < u.NumFields(); i++ {
				f := u.Field(i)
				for _, l := range leavesOf(f.Type()) {
					out = append(out, Leaf{"." + f.Name() + l.path, l.sort, l.ty, l.kind})
				}
			}
		case *types.Array:
			for _, l := range leavesOf(u.Elem()) {
				out = append(out, Leaf{"[]" + l.path, ArrS(I64, l.sort), l.ty, l.kind})
			}
		case *types.Tuple:
			for i := 0; i < u.Len(); i++ {
				for _, l := range leavesOf(u.At(i).Type()) {
					out = append(out, Leaf{fmt.Sprintf(".%d", i) + l.path, l.sort, l.ty, l.kind})
				}
			}
		case *types.TypeParam:
			out = []Leaf{{".tag", BV(32), t, "tag"}, {".val", I64, t, "val"}}
		case *types.Basic:
			if u.Kind() == types.Invalid {
				out = []Leaf{}
				break
			}
			panic("leavesOf: unsupported basic type " + k)
		default:
			panic("leavesOf: unsupported type " + k)
		}
	}
	leafCache[k] = out
	return out
}

// fieldRange gives the leaf sub-range of field i of a struct type.
func fieldRange(st *types.Struct, i int) (int, int) {
	start := 0
	for j := 0; j < i; j++ {
		start += len(leavesOf(st.Field(j).Type()))
	}
	return start, start + len(leavesOf(st.Field(i).Type()))
}

// Step of an interior pointer path.
type Step struct {
	field int   // field index, or -1 for index step
	idx   *Term // BV64 index for index steps
	lo, n *Term // for an element of a slice: the window [lo, lo+n) of the backing array the slice covers
}

// PtrInfo describes where a pointer (or array-backed slice) points.
type PtrInfo struct {
	rootKey string     // region family: type key, or "[]"+elem key for slice backings, or "G:"+name
	rootTy  types.Type // type of the root object ([N]E style lifting for slice backings is implicit)
	backing bool       // root is a slice backing: leaves of rootTy (=elem) lifted by BV64
	idxSort *Sort      // index sort of the backing lift (nil = BV64)
	steps   []Step
}

// SV is a symbolic Go value.
type SV struct {
	ty types.Type
	l  []*Term
	p  *PtrInfo // for pointers with interior paths and array-backed slices
	tup []SV    // components of tuple values
	clo *closure
	rng *SV // range iterator operand
	chanKey string // provenance of a channel value loaded from a struct field (for channel invariants)
	contents []*Term // spec-function slice parameter: contents, one SMT array per element leaf (index = off+i)
}

type closure struct {
	fn    *ssa.Function
	binds []SV
}

func (v SV) t() *Term {
	if len(v.l) != 1 {
		panic(fmt.Sprintf("scalar expected, got %d leaves of %s", len(v.l), typeKey(v.ty)))
	}
	return v.l[0]
}

func scalarSV(ty types.Type, t *Term) SV { return SV{ty: ty, l: []*Term{t}} }

func zeroTerm(s *Sort) *Term {
	if s == BoolS {
		return False
	}
	if s.bv > 0 {
		return mkBV(0, s.bv)
	}
	return ConstArr(s, zeroTerm(s.elem))
}

func zeroSV(ty types.Type) SV {
	ls := leavesOf(ty)
	out := make([]*Term, len(ls))
	for i, l := range ls {
		out[i] = zeroTerm(l.sort)
	}
	return SV{ty: ty, l: out}
}

var freshCtr int

func freshName(hint string) string {
	freshCtr++
	hint = strings.Map(func(r rune) rune {
		if r >= 'a' && r <= 'z' || r >= 'A' && r <= 'Z' || r >= '0' && r <= '9' || r == '_' || r == '.' || r == '$' {
			return r
		}
		return '_'
	}, hint)
	return fmt.Sprintf("%s!%d", hint, freshCtr)
}

func freshSV(ty types.Type, hint string) SV {
	ls := leavesOf(ty)
	out := make([]*Term, len(ls))
	n := freshName(hint)
	for i, l := range ls {
		out[i] = mkVar(n+l.path, l.sort)
	}
	return SV{ty: ty, l: out}
}

// namedSV creates variables with stable names (for parameters: models map back).
func namedSV(ty types.Type, name string) SV {
	ls := leavesOf(ty)
	out := make([]*Term, len(ls))
	for i, l := range ls {
		out[i] = mkVar(name+l.path, l.sort)
	}
	return SV{ty: ty, l: out}
}

func iteSV(c *Term, a, b SV) SV {
	out := make([]*Term, len(a.l))
	for i := range a.l {
		out[i] = Ite(c, a.l[i], b.l[i])
	}
	return SV{ty: a.ty, l: out}
}

// eqSV compares two values of the same type (Go == semantics for comparable types).
func eqSV(a, b SV) *Term {
	if len(a.l) != len(b.l) {
		panic("eqSV: leaf count mismatch " + typeKey(a.ty) + " vs " + typeKey(b.ty))
	}
	ls := leavesOf(a.ty)
	if len(a.l) == 1 && ((a.p != nil && len(a.p.steps) > 0) || (b.p != nil && len(b.p.steps) > 0)) {
		if _, isPtr := a.ty.Underlying().(*types.Pointer); isPtr {
			// interior pointers: the base reference alone does not identify them
			pa, pb := a.l[0], b.l[0]
			if pa.isConst() || pb.isConst() {
				return Eq(pa, pb) // comparison with nil: an interior pointer is nil iff its base is
			}
			if a.p != nil && len(a.p.steps) > 0 {
				pa = interiorPtrTerm(a)
			}
			if b.p != nil && len(b.p.steps) > 0 {
				pb = interiorPtrTerm(b)
			}
			return Eq(pa, pb)
		}
	}
	var cs []*Term
	for i := range a.l {
		if ls[i].sort.idx != nil {
			cs = append(cs, arrEq(a.ty, i, a.l[i], b.l[i]))
		} else {
			cs = append(cs, Eq(a.l[i], b.l[i]))
		}
	}
	return And(cs...)
}

// arrEq compares array leaves element-wise over the declared bounds when small, else extensionally.
func arrEq(ty types.Type, leaf int, a, b *Term) *Term {
	dims := arrayDims(ty, leaf)
	if len(dims) == 1 && dims[0] <= 32 {
		var cs []*Term
		for k := int64(0); k < dims[0]; k++ {
			cs = append(cs, Eq(Select(a, mkBV(k, 64)), Select(b, mkBV(k, 64))))
		}
		return And(cs...)
	}
	return Eq(a, b)
}

// arrayDims finds the array lengths along the path to leaf index `leaf` of type ty.
func arrayDims(ty types.Type, leaf int) []int64 {
	switch u := ty.Underlying().(type) {
	case *types.Struct:
		for i := 0; i < u.NumFields(); i++ {
			s, e := fieldRange(u, i)
			if leaf >= s && leaf < e {
				return arrayDims(u.Field(i).Type(), leaf-s)
			}
		}
	case *types.Array:
		return append([]int64{u.Len()}, arrayDims(u.Elem(), leaf)...)
	}
	return nil
}

func elemType(t types.Type) types.Type {
	switch u := t.Underlying().(type) {
	case *types.Slice:
		return u.Elem()
	case *types.Array:
		return u.Elem()
	case *types.Pointer:
		return u.Elem()
	case *types.Map:
		return u.Elem()
	case *types.Basic: // string
		return types.Typ[types.Uint8]
	}
	panic("elemType of " + typeKey(t))
}

func derefType(t types.Type) types.Type {
	if p, ok := t.Underlying().(*types.Pointer); ok {
		return p.Elem()
	}
	panic("deref of non-pointer " + typeKey(t))
}

// isRefLeaf reports whether a leaf holds an object reference (pointer, map, channel, function value,
// the backing array of a slice). References share their 32-bit sort with uint32/int32 values, strings and
// dynamic-type tags, so the sort alone must not be used to recognise them.
func isRefLeaf(l Leaf) bool {
	if l.sort != RefS {
		return false
	}
	if l.kind == "arr" {
		return true
	}
	if l.kind != "" {
		return false
	}
	switch u := l.ty.Underlying().(type) {
	case *types.Pointer, *types.Map, *types.Chan, *types.Signature:
		return true
	case *types.Basic:
		return u.Kind() == types.UnsafePointer || u.Kind() == types.UntypedNil
	}
	return false
}
