package main

import (
	"fmt"
	"go/types"
	"os"
	"strings"

	"golang.org/x/tools/go/ssa"
)

// effectFree lists callees treated as having no effect on the state contracts talk about (A4).
func effectFree(name string) bool {
	for _, p := range []string{
		"github.com/scionproto/scion/pkg/log.", "(github.com/scionproto/scion/pkg/log.",
		"github.com/scionproto/scion/pkg/private/serrors.", "(github.com/scionproto/scion/pkg/private/serrors.",
		"(*github.com/scionproto/scion/pkg/private/serrors.",
		"fmt.", "errors.", "strconv.", "strings.",
		"github.com/prometheus/", "(github.com/prometheus/", "(*github.com/prometheus/",
		"github.com/scionproto/scion/pkg/metrics", "(github.com/scionproto/scion/pkg/metrics",
		"github.com/scionproto/scion/pkg/private/prom", "github.com/scionproto/scion/private/tracing",
		"github.com/opentracing/", "(github.com/opentracing/",
		"(*sync.Mutex).", "(*sync.RWMutex).", "(*sync.Once).", "(sync.Locker).",
		"sync.NewCond", "(*sync.Cond).Broadcast", "(*sync.Cond).Signal",
		"(*sync/atomic.", "sync/atomic.",
		"(error).Error", "(fmt.Stringer).String", "log/slog", "(*log/slog",
		"github.com/scionproto/scion/pkg/private/common.", "runtime.", "(*math/rand", "math/rand",
		"(*github.com/scionproto/scion/pkg/metrics", "(*github.com/scionproto/scion/pkg/log",
		"(*github.com/scionproto/scion/router.Metrics", "(github.com/scionproto/scion/router.trafficMetrics",
		"github.com/scionproto/scion/pkg/private/util.", "time.Sleep", "(*time.Timer).", "(*time.Ticker).",
		"(*github.com/gopacket/gopacket/layers.BFD).Length",
		"github.com/scionproto/scion/private/underlay/conn.ResolveAddrPort",
		"(context.Context).", "context.", "time.NewTimer", "time.NewTicker", "time.After", "time.AfterFunc",
		"net/netip.", "(net/netip.Addr).", "(net/netip.AddrPort).", "(net/netip.Prefix).",
		"(net.IP).", "net.ParseIP", "(*net.UDPAddr).String", "(*net.UDPAddr).AddrPort", "(*net.IPNet).",
	} {
		if strings.HasPrefix(name, p) {
			return true
		}
	}
	if strings.HasSuffix(name, ").String") || strings.HasSuffix(name, ").Error") {
		return true
	}
	return false
}

func inScion(f *ssa.Function) bool {
	p := f.Pkg
	if p == nil && f.Origin() != nil {
		p = f.Origin().Pkg
	}
	if p == nil {
		return f.Synthetic != ""
	}
	pp := p.Pkg.Path()
	return strings.HasPrefix(pp, "github.com/scionproto/scion/") || pp == "encoding/binary" || pp == "math/bits"
}

func blockCount(f *ssa.Function) int { return len(f.Blocks) }

func contains(l []string, s string) bool {
	for _, x := range l {
		if x == s {
			return true
		}
	}
	return false
}

// doCall handles a call instruction; returns false if the path ended.
func (x *Exec) doCall(st *State, fr *Frame, ci *ssa.Call) bool {
	cc := ci.Common()
	var args []SV
	for _, a := range cc.Args {
		args = append(args, fr.get(x, a))
	}
	if b, ok := cc.Value.(*ssa.Builtin); ok {
		fr.vals[ci] = x.builtin(st, fr, ci, b, args)
		return true
	}
	if cc.IsInvoke() {
		recv := fr.get(x, cc.Value)
		x.safe(st, fr, "nil", ci.Pos(), Neq(recv.l[0], mkBV(0, 32)))
		name := cc.Method.FullName()
		// devirtualisation: the dynamic type is known (constant tag, or fixed by the path condition)
		if ct := x.knownDynType(st, recv.l[0]); ct != nil {
			if sel := x.prog.MethodSets.MethodSet(ct).Lookup(cc.Method.Pkg(), cc.Method.Name()); sel != nil {
				if callee := x.prog.MethodValue(sel); callee != nil {
					rv := x.unbox(st, ct, recv)
					return x.staticCall(st, fr, ci, callee, append([]SV{rv}, args...), nil)
				}
			}
		}
		if c := x.ifaceContract(cc.Value.Type(), cc.Method); c != nil {
			sig := cc.Method.Type().(*types.Signature)
			x.modularCall(st, fr, ci, c, sig, append([]SV{recv}, args...), nil, "iface:"+name)
			return true
		}
		if m, ok := x.modelCall(st, fr, ci, name, append([]SV{recv}, args...)); ok {
			fr.vals[ci] = m
			return true
		}
		if effectFree(name) {
			x.pureOpaque(st, fr, ci, name)
			return true
		}
		x.opaqueCall(st, fr, ci, name)
		return true
	}
	callee := cc.StaticCallee()
	if callee == nil {
		// closure call with known target?
		fv := fr.get(x, cc.Value)
		if fv.clo != nil {
			return x.inlineCall(st, fr, ci, fv.clo.fn, args, fv.clo.binds)
		}
		// contract attached to a named function type: "iface <TypeName>.call"
		if nt, ok := types.Unalias(cc.Value.Type()).(*types.Named); ok && nt.Obj().Pkg() != nil {
			if sig, ok := nt.Underlying().(*types.Signature); ok {
				if pc := x.contracts[nt.Obj().Pkg().Path()]; pc != nil {
					if c := pc.ifaces[nt.Obj().Name()+".call"]; c != nil {
						x.safe(st, fr, "nil", ci.Pos(), Neq(fv.l[0], nilRef))
						x.modularCall(st, fr, ci, c, sig, append([]SV{fv}, args...), nil, "functype:"+nt.Obj().Name())
						return true
					}
				}
			}
		}
		if x.tcontract != nil && x.tcontract.pureDyn {
			// declared assumption of the function under contract: its callbacks have no effect on the
			// state the contracts talk about (their results are unconstrained)
			x.havocked["effect-free (puredyn): call through a function value in "+x.targetName()] = true
			r := freshSV(ci.Type(), "r_dyn")
			x.wf(st, r)
			// ... and return usable values: an interface or pointer result is not nil
			for i, l := range leavesOf(ci.Type()) {
				if i < len(r.l) && (l.kind == "tag" || isRefLeaf(l)) && l.sort == RefS && (i == 0) {
					st.assume(Neq(r.l[i], mkBV(0, 32)))
				}
			}
			fr.vals[ci] = x.splitTuple(ci.Type(), r)
			return true
		}
		x.opaqueCall(st, fr, ci, "dynamic call")
		return true
	}
	var binds []SV
	if mc, ok := cc.Value.(*ssa.MakeClosure); ok {
		for _, b := range mc.Bindings {
			binds = append(binds, fr.get(x, b))
		}
	}
	return x.staticCall(st, fr, ci, callee, args, binds)
}

// staticCall dispatches a call whose callee is known: model, contract, effect-free, inline or havoc.
func (x *Exec) staticCall(st *State, fr *Frame, ci *ssa.Call, callee *ssa.Function, args []SV, binds []SV) bool {
	name := callee.String()
	tc := x.contractFor(fr.fn)
	rel := relName(callee)
	if tc != nil && tc.callPres != nil {
		cps := tc.callPres[rel]
		if cps == nil {
			cps = tc.callPres[name]
		}
		for k, cp := range cps {
			env := &Env{x: x, st: st, oldSt: st.entry, vars: map[string]SV{}, pkg: fr.fn.Pkg.Pkg}
			if fr.fn == x.target {
				for n, v := range st.lets {
					env.vars[n] = v
				}
			}
			env.lookup = x.localResolverAt(st, fr, ci.Block(), ci)
			for i, a := range args {
				env.vars[fmt.Sprintf("a%d", i)] = a
			}
			t, err := env.EvalBool(cp.expr)
			if err != nil {
				panic(abortErr{fmt.Sprintf("%s:%d: callpre %s: %v", cp.file, cp.line, cp.text, err)})
			}
			_, txt := x.srcLine(ci.Pos())
			x.oblige(st, fmt.Sprintf("callpre:%s>%s#%d:%s", x.targetName(), shortFn(rel), k+1, txt), "pre", "at the call of "+rel+": "+cp.text, ci.Pos(), t)
			st.assume(t)
		}
	}
	if tc != nil && tc.callMods != nil {
		cm := tc.callMods[rel]
		if cm == nil {
			cm = tc.callMods[name]
		}
		if cm != nil {
			if c := x.contractFor(callee); c == nil || c.hasMod || c.inline || contains(tc.opaque, rel) || contains(tc.opaque, name) {
				x.callModCall(st, fr, ci, name, cm)
				return true
			}
			// the callee has a contract without frame: the caller's callmod supplies the frame (modularCall)
		}
	}
	if tc != nil && (contains(tc.opaque, rel) || contains(tc.opaque, name)) {
		x.opaqueCall(st, fr, ci, name)
		return true
	}
	forceInline := tc != nil && (contains(tc.inlines, rel) || contains(tc.inlines, name))
	if x.tcontract != nil && (contains(x.tcontract.inlines, rel) || contains(x.tcontract.inlines, name)) {
		forceInline = true // the target's inline list also applies inside inlined callees
	}
	if m, ok := x.modelCall(st, fr, ci, name, args); ok {
		fr.vals[ci] = m
		return true
	}
	c := x.contractFor(callee)
	if c == nil {
		c = x.externContract(name)
	}
	if c != nil && !c.inline && !forceInline {
		x.modularCall(st, fr, ci, c, callee.Signature, args, callee, name)
		return true
	}
	if effectFree(name) {
		x.pureOpaque(st, fr, ci, name)
		return true
	}
	depth := len(st.stack)
	maxDepth := 6
	if x.tcontract != nil && x.tcontract.depth > 0 {
		maxDepth = x.tcontract.depth
	}
	canInline := len(callee.Blocks) > 0 && depth < maxDepth && !x.onStack(st, callee)
	if canInline && (forceInline || (c != nil && c.inline) || (inScion(callee) && (blockCount(callee) <= 14 || callee.Synthetic != ""))) {
		return x.inlineCall(st, fr, ci, callee, args, binds)
	}
	x.opaqueCall(st, fr, ci, name)
	return true
}

// knownDynType returns the concrete type behind an interface tag when it is determined.
func (x *Exec) knownDynType(st *State, tag *Term) types.Type {
	if tag.isConst() {
		return x.typeByID[int(tag.c.Int64())]
	}
	for _, f := range st.pc {
		if f.op == "=" {
			a, b := f.args[0], f.args[1]
			if a == tag && b.isConst() {
				return x.typeByID[int(b.c.Int64())]
			}
			if b == tag && a.isConst() {
				return x.typeByID[int(a.c.Int64())]
			}
		}
	}
	return nil
}

func (x *Exec) onStack(st *State, f *ssa.Function) bool {
	for _, fr := range st.stack {
		if fr.fn == f {
			return true
		}
	}
	return false
}

func (x *Exec) inlineCall(st *State, fr *Frame, ci ssa.CallInstruction, callee *ssa.Function, args []SV, binds []SV) bool {
	if !x.inlined[callee.String()] && os.Getenv("GOWP_TRACE") != "" {
		fmt.Fprintf(os.Stderr, "inline %s (%d blocks)\n", callee, len(callee.Blocks))
	}
	x.inlined[callee.String()] = true
	nf := &Frame{fn: callee, vals: map[ssa.Value]SV{}, visits: map[int]int{}, inCut: map[int]bool{}, call: ci, block: callee.Blocks[0]}
	if len(args) != len(callee.Params) {
		panic(abortErr{fmt.Sprintf("arity mismatch inlining %s", callee)})
	}
	for i, p := range callee.Params {
		a := args[i]
		if !types.Identical(a.ty, p.Type()) {
			if _, isIf := p.Type().Underlying().(*types.Interface); isIf {
				if _, aIf := a.ty.Underlying().(*types.Interface); !aIf {
					a = x.makeIface(st, p.Type(), a)
				}
			}
			a.ty = p.Type()
		}
		nf.vals[p] = a
	}
	for i, fv := range callee.FreeVars {
		if i < len(binds) {
			nf.vals[fv] = binds[i]
		} else {
			nf.vals[fv] = freshSV(fv.Type(), "fv_"+fv.Name())
		}
	}
	st.stack = append(st.stack, nf)
	return true
}

// pureOpaque: effect-free callee, unconstrained results.
func (x *Exec) pureOpaque(st *State, fr *Frame, ci *ssa.Call, name string) {
	x.havocked["effect-free: "+name] = true
	r := freshSV(ci.Type(), "r_"+shortFn(name))
	x.wf(st, r)
	// error constructors return non-nil errors
	if strings.HasPrefix(name, "github.com/scionproto/scion/pkg/private/serrors.New") ||
		strings.HasPrefix(name, "github.com/scionproto/scion/pkg/private/serrors.Join") ||
		strings.HasPrefix(name, "github.com/scionproto/scion/pkg/private/serrors.Wrap") ||
		name == "errors.New" || name == "fmt.Errorf" ||
		name == "github.com/scionproto/scion/pkg/log.FromCtx" || name == "github.com/scionproto/scion/pkg/log.New" ||
		name == "github.com/scionproto/scion/pkg/log.Root" {
		if len(r.l) == 2 {
			st.assume(Neq(r.l[0], mkBV(0, 32)))
		}
	}
	if (name == "time.NewTimer" || name == "time.NewTicker") && len(r.l) == 1 {
		// constructors return a fresh non-nil object
		r.l[0] = x.freshRef(st)
	}
	fr.vals[ci] = x.splitTuple(ci.Type(), r)
}

func (x *Exec) splitTuple(ty types.Type, r SV) SV {
	tt, ok := ty.(*types.Tuple)
	if !ok {
		return r
	}
	off := 0
	for i := 0; i < tt.Len(); i++ {
		n := len(leavesOf(tt.At(i).Type()))
		r.tup = append(r.tup, SV{ty: tt.At(i).Type(), l: r.l[off : off+n]})
		off += n
	}
	return r
}

func shortFn(name string) string {
	if i := strings.LastIndex(name, "/"); i >= 0 {
		name = name[i+1:]
	}
	return name
}

// callModCall: uninterpreted callee whose frame the caller's contract states (an assumption, listed in the
// evidence): results unconstrained, exactly the designated locations havocked.
func (x *Exec) callModCall(st *State, fr *Frame, ci *ssa.Call, name string, cm *Clause) {
	for _, ml := range x.callModLocs(st, fr, ci, cm) {
		x.havocMod(st, ml, shortFn(name))
	}
	r := freshSV(ci.Type(), "r_"+shortFn(name))
	x.wf(st, r)
	fr.vals[ci] = x.splitTuple(ci.Type(), r)
}

func (x *Exec) callModFor(fr *Frame, callee *ssa.Function) *Clause {
	tc := x.contractFor(fr.fn)
	if tc == nil || tc.callMods == nil || callee == nil {
		return nil
	}
	if cm := tc.callMods[relName(callee)]; cm != nil {
		return cm
	}
	return tc.callMods[callee.String()]
}

// callModLocs evaluates the designators of a callmod clause in the caller's state at the call.
func (x *Exec) callModLocs(st *State, fr *Frame, ci *ssa.Call, cm *Clause) []modLoc {
	x.havocked["assumed frame ("+cm.text+") in "+relName(fr.fn)] = true
	env := &Env{x: x, st: st, vars: map[string]SV{}, pkg: fr.fn.Pkg.Pkg}
	if fr.fn == x.target {
		for k, v := range st.lets {
			env.vars[k] = v
		}
	}
	env.lookup = x.localResolverAt(st, fr, ci.Block(), ci)
	// the actual arguments of the call (receiver first) are a0, a1, ...
	for i, a := range ci.Call.Args {
		env.vars[fmt.Sprintf("a%d", i)] = fr.get(x, a)
	}
	var locs []modLoc
	for _, e := range cm.exprs {
		func() {
			defer func() {
				if r := recover(); r != nil {
					if ee, ok := r.(evalErr); ok {
						panic(abortErr{fmt.Sprintf("%s:%d: callmod %s: %s", cm.file, cm.line, cm.text, ee.msg)})
					}
					panic(r)
				}
			}()
			locs = append(locs, x.modLocs(env, e)...)
		}()
	}
	return locs
}

// opaqueCall: unknown callee: results unconstrained, whole heap havocked.
func (x *Exec) opaqueCall(st *State, fr *Frame, ci *ssa.Call, name string) {
	x.havocked["havoc-all: "+name] = true
	st.havocAll()
	r := freshSV(ci.Type(), "r_"+shortFn(name))
	x.wf(st, r)
	fr.vals[ci] = x.splitTuple(ci.Type(), r)
}

// modularCall applies a callee contract: assert requires, havoc modifies, assume ensures.
func (x *Exec) modularCall(st *State, fr *Frame, ci *ssa.Call, c *FuncContract, sig *types.Signature, args []SV, callee *ssa.Function, name string) {
	x.modular[name] = true
	vars := map[string]SV{}
	pkg := x.typesPkg(c.pkg)
	if callee != nil && len(callee.Params) == 0 && len(args) > 0 {
		// function without a body (outside the loaded sources): names come from the signature
		x.modelled["assumed contract (extern): "+name] = true
		k := 0
		if rv := sig.Recv(); rv != nil {
			n := rv.Name()
			if n == "" || n == "_" {
				n = "self"
			}
			vars[n] = args[0]
			vars["self"] = args[0]
			k = 1
		}
		ps := sig.Params()
		for i := 0; i < ps.Len() && k+i < len(args); i++ {
			n := ps.At(i).Name()
			if n == "" || n == "_" {
				n = fmt.Sprintf("arg%d", i)
			}
			vars[n] = args[k+i]
			vars[fmt.Sprintf("arg%d", i)] = args[k+i]
		}
	} else if callee != nil {
		for i, p := range callee.Params {
			a := args[i]
			if !types.Identical(a.ty, p.Type()) {
				if _, isIf := p.Type().Underlying().(*types.Interface); isIf {
					if _, aIf := a.ty.Underlying().(*types.Interface); !aIf {
						a = x.makeIface(st, p.Type(), a)
					}
				}
				a.ty = p.Type()
			}
			vars[p.Name()] = a
		}
	} else {
		// interface method: receiver is "self", params by signature names
		vars["self"] = args[0]
		ps := sig.Params()
		for i := 0; i < ps.Len(); i++ {
			n := ps.At(i).Name()
			if n == "" || n == "_" {
				n = fmt.Sprintf("arg%d", i)
			}
			a := args[i+1]
			if _, isIf := ps.At(i).Type().Underlying().(*types.Interface); isIf {
				if _, aIf := a.ty.Underlying().(*types.Interface); !aIf {
					a = x.makeIface(st, ps.At(i).Type(), a)
				}
			}
			vars[n] = a
			vars[fmt.Sprintf("arg%d", i)] = a
		}
	}
	env := &Env{x: x, st: st, vars: vars, pkg: pkg}
	short := shortFn(name)
	for _, l := range c.lets {
		v, err := env.EvalAny(l.expr, nil)
		if err != nil {
			panic(abortErr{fmt.Sprintf("%s:%d: let %s: %v", l.file, l.line, l.text, err)})
		}
		vars[l.name] = v
	}
	for i, r := range c.requires {
		t, err := env.EvalBool(r.expr)
		if err != nil {
			panic(abortErr{fmt.Sprintf("%s:%d: requires %s at call in %s: %v", r.file, r.line, r.text, fr.fn, err)})
		}
		_, txt := x.srcLine(ci.Pos())
		oname := fmt.Sprintf("pre:%s>%s#%d:%s", x.targetName(), short, i+1, txt)
		if t.op == "and" && len(t.args) <= 64 && os.Getenv("GOWP_SPLIT_PRE") != "" {
			// diagnostics: one obligation per conjunct
			for k, a := range t.args {
				x.oblige(st, fmt.Sprintf("%s.%d", oname, k+1), "pre", "conjunct of precondition "+r.text+" of "+name, ci.Pos(), a)
			}
		} else {
			x.oblige(st, oname, "pre", "precondition "+r.text+" of "+name, ci.Pos(), t)
		}
		st.assume(t)
	}
	pre := st.clone()
	// havoc
	if cm := x.callModFor(fr, callee); !c.hasMod && cm != nil {
		for _, ml := range x.callModLocs(st, fr, ci, cm) {
			x.havocMod(st, ml, short)
		}
	} else if !c.hasMod {
		st.havocAll()
	} else if !c.pure {
		penv := &Env{x: x, st: pre, vars: vars, pkg: pkg}
		for _, m := range c.modifies {
			mcond := x.modCond(penv, m)
			if mcond == False {
				continue
			}
			for _, e := range m.exprs {
				func() {
					defer func() {
						if r := recover(); r != nil {
							if ee, ok := r.(evalErr); ok {
								panic(abortErr{fmt.Sprintf("%s:%d: modifies %s: %s", m.file, m.line, m.text, ee.msg)})
							}
							panic(r)
						}
					}()
					for _, ml := range x.modLocs(penv, e) {
						if mcond == nil {
							x.havocMod(st, ml, short)
							continue
						}
						// conditional: the row of the object keeps its value unless the condition holds
						li := resolveLoc(ml.ptr)
						base := ml.ptr.l[0]
						before := map[string]*Term{}
						for k := li.lo; k < li.hi; k++ {
							before[li.key(k)] = st.region(li.key(k), li.regionSort(k))
						}
						x.havocMod(st, ml, short)
						for k := li.lo; k < li.hi; k++ {
							key := li.key(k)
							old := before[key]
							now := st.region(key, li.regionSort(k))
							st.setRegion(key, Store(old, base, Ite(mcond, Select(now, base), Select(old, base))))
						}
					}
				}()
			}
		}
	}
	// results
	var results []SV
	rs := sig.Results()
	for i := 0; i < rs.Len(); i++ {
		r := freshSV(rs.At(i).Type(), fmt.Sprintf("ret%d_%s", i, short))
		if c.fresh && i == 0 {
			if _, ok := r.ty.Underlying().(*types.Pointer); ok {
				r.l[0] = x.freshRef(st)
			}
		}
		x.wf(st, r)
		results = append(results, r)
	}
	bindResults(vars, sig, results)
	penv := &Env{x: x, st: st, oldSt: pre, vars: vars, pkg: pkg, assumeFresh: true}
	x.applyGsets(st, penv, c)
	ens := c.ensures
	if x.tcontract != nil && callee != nil && (contains(x.tcontract.frameOnly, relName(callee)) || contains(x.tcontract.frameOnly, callee.Name())) {
		// the verified function does not need what this callee guarantees (only that it is called
		// legitimately and what it may change): its postconditions are not brought into the path condition
		ens = nil
	}
	for _, en := range ens {
		t, err := penv.EvalBool(en.expr)
		if err != nil {
			panic(abortErr{fmt.Sprintf("%s:%d: ensures %s at call in %s: %v", en.file, en.line, en.text, fr.fn, err)})
		}
		st.assume(t)
	}
	if ci.Value() != nil {
		if rs.Len() == 0 {
			fr.vals[ci] = SV{ty: ci.Type()}
		} else {
			fr.vals[ci] = packResults(ci.Type(), results)
		}
	}
}

// ---------- builtins ----------

func (x *Exec) builtin(st *State, fr *Frame, ci *ssa.Call, b *ssa.Builtin, args []SV) SV {
	intT := types.Typ[types.Int]
	switch b.Name() {
	case "len":
		a := args[0]
		switch u := a.ty.Underlying().(type) {
		case *types.Slice:
			return scalarSV(intT, a.l[2])
		case *types.Basic:
			return scalarSV(intT, strLen(a.t()))
		case *types.Map:
			return scalarSV(intT, Ite(Eq(a.t(), nilRef), mkBV(0, 64), st.mapLen(x, a)))
		case *types.Array:
			return scalarSV(intT, mkBV(u.Len(), 64))
		case *types.Pointer:
			return scalarSV(intT, mkBV(u.Elem().Underlying().(*types.Array).Len(), 64))
		case *types.Chan:
			return freshSV(intT, "chanlen")
		}
	case "cap":
		a := args[0]
		switch u := a.ty.Underlying().(type) {
		case *types.Slice:
			return scalarSV(intT, a.l[3])
		case *types.Array:
			return scalarSV(intT, mkBV(u.Len(), 64))
		case *types.Pointer:
			return scalarSV(intT, mkBV(u.Elem().Underlying().(*types.Array).Len(), 64))
		case *types.Chan:
			return freshSV(intT, "chancap")
		}
	case "min", "max":
		r := args[0]
		for _, a := range args[1:] {
			op := "bvult"
			if isSigned(r.ty) {
				op = "bvslt"
			}
			c := BvCmp(op, a.t(), r.t())
			if b.Name() == "max" {
				c = BvCmp(op, r.t(), a.t())
			}
			r = scalarSV(ci.Type(), Ite(c, a.t(), r.t()))
		}
		return r
	case "copy":
		return x.copyBuiltin(st, fr, ci, args[0], args[1])
	case "append":
		return x.appendBuiltin(st, fr, ci, args[0], args[1])
	case "delete":
		st.mapDelete(x, args[0], args[1])
		return SV{ty: ci.Type()}
	case "clear":
		x.note("clear() in %s treated as havoc", fr.fn)
		st.havocAll()
		return SV{ty: ci.Type()}
	case "print", "println":
		return SV{ty: ci.Type()}
	case "ssa:wrapnilchk":
		x.safe(st, fr, "nil", ci.Pos(), Neq(args[0].l[0], nilRef))
		return args[0]
	case "close":
		return SV{ty: ci.Type()}
	case "recover":
		return zeroSV(ci.Type())
	}
	panic(abortErr{"unsupported builtin " + b.Name()})
}

func (x *Exec) sliceElem(st *State, s SV, i *Term) SV {
	return st.load(x, sliceElemAddr(s, i))
}

func (x *Exec) copyBuiltin(st *State, fr *Frame, ci *ssa.Call, dst, src SV) SV {
	intT := types.Typ[types.Int]
	var srcLen *Term
	srcIsString := false
	if _, ok := src.ty.Underlying().(*types.Basic); ok {
		srcLen = strLen(src.t())
		srcIsString = true
	} else {
		srcLen = src.l[2]
	}
	n := Ite(BvCmp("bvslt", srcLen, dst.l[2]), srcLen, dst.l[2])
	if !n.isConst() && (srcLen.isConst() != dst.l[2].isConst()) {
		// one length is a constant: if the path condition bounds the other one from below by it, the
		// number of elements copied is that constant (and the copy can be unrolled)
		c, o := srcLen, dst.l[2]
		if !c.isConst() {
			c, o = o, c
		}
		var conj []*Term
		for _, f := range st.pc {
			flattenConj(f, &conj)
		}
		bc, _ := collectBounds(conj)
		if iv := bc.interval(o); iv != nil && iv.lo.Cmp(signed64(c.c)) >= 0 {
			n = c
		}
	}
	if n.isConst() && n.c.Int64() <= 64 && !srcIsString {
		cnt := n.c.Int64()
		vals := make([]SV, cnt)
		for i := int64(0); i < cnt; i++ {
			vals[i] = x.sliceElem(st, src, mkBV(i, 64))
		}
		for i := int64(0); i < cnt; i++ {
			st.store(x, sliceElemAddr(dst, mkBV(i, 64)), vals[i])
		}
		return scalarSV(intT, n)
	}
	// general case: new contents constrained by a quantified assumption
	et := elemType(dst.ty)
	dli := resolveLoc(sliceElemAddr(dst, mkBV(0, 64)))
	if len(dli.idxs) != 1 {
		x.note("copy into nested array slice in %s treated as havoc of destination", fr.fn)
		st.havocLoc(x, sliceElemAddr(dst, mkBV(0, 64)), "copy")
		return scalarSV(intT, n)
	}
	var sli locInfo
	if !srcIsString {
		sli = resolveLoc(sliceElemAddr(src, mkBV(0, 64)))
	}
	for k := dli.lo; k < dli.hi; k++ {
		s := dli.regionSort(k)
		r := st.region(dli.key(k), s)
		oldArr := Select(r, dst.l[0])
		if !dli.backing {
			// array field inside an object: (Array BV64 τ) leaf
		}
		newArr := mkVar(freshName("copy_"+regionName(dli.key(k))), oldArr.sort)
		j := mkBound(freshName("j"), I64)
		dOff := dli.idxs[0] // dst.off + 0
		inRange := And(BvCmp("bvsle", dOff, j), BvCmp("bvslt", j, BvBin("bvadd", dOff, n)))
		var srcVal *Term
		if srcIsString || len(sli.idxs) != 1 {
			srcVal = nil
		} else {
			sr := st.region(sli.key(sli.lo+(k-dli.lo)), sli.regionSort(sli.lo+(k-dli.lo)))
			sArr := Select(sr, src.l[0])
			srcVal = Select(sArr, BvBin("bvadd", sli.idxs[0], BvBin("bvsub", j, dOff)))
		}
		var body *Term
		if srcVal != nil {
			body = Eq(Select(newArr, j), Ite(inRange, srcVal, Select(oldArr, j)))
		} else {
			body = Implies(Not(inRange), Eq(Select(newArr, j), Select(oldArr, j)))
		}
		st.assume(Forall([]*Term{j}, body))
		if st.disc != nil {
			st.disc.curWin = &win{dOff, n}
		}
		st.setRegion(dli.key(k), Store(r, dst.l[0], newArr))
		if st.disc != nil {
			st.disc.curWin = nil
		}
	}
	_ = et
	return scalarSV(intT, n)
}

func (x *Exec) appendBuiltin(st *State, fr *Frame, ci *ssa.Call, s, extra SV) SV {
	et := elemType(s.ty)
	var exLen *Term
	exString := false
	if _, ok := extra.ty.Underlying().(*types.Basic); ok {
		exLen = strLen(extra.t())
		exString = true
	} else {
		exLen = extra.l[2]
	}
	if exLen.isConst() && exLen.c.Sign() == 0 {
		return SV{ty: ci.Type(), l: s.l, p: s.p}
	}
	newLen := BvBin("bvadd", s.l[2], exLen)
	ref := x.freshRef(st)
	cp := mkVar(freshName("appcap"), I64)
	st.assume(lenLe(newLen, cp))
	st.assume(BvCmp("bvsle", cp, mkBVu(1<<40, 64)))
	res := SV{ty: ci.Type(), l: []*Term{ref, mkBV(0, 64), newLen, cp}}
	// contents: result[i] = s[i] for i < len(s); result[len(s)+j] = extra[j]
	sli := resolveLoc(sliceElemAddr(s, mkBV(0, 64)))
	leaves := leavesOf(et)
	smallExtra := exLen.isConst() && exLen.c.Int64() <= 16 && !exString
	for k, l := range leaves {
		key := "[]" + typeKey(et) + "#" + l.path
		srt := ArrS(RefS, ArrS(I64, l.sort))
		r := st.region(key, srt)
		var base *Term
		if len(sli.idxs) == 1 && sli.idxs[0] == mkBV(0, 64) && (s.p == nil) {
			// offset 0: copy whole old backing array (positions >= len are overwritten or unobservable)
			base = Select(st.region(sli.key(sli.lo+k), sli.regionSort(sli.lo+k)), s.l[0])
		} else if s.l[2].isConst() && s.l[2].c.Int64() <= 64 {
			base = ConstArr(ArrS(I64, l.sort), zeroTerm(l.sort))
			for i := int64(0); i < s.l[2].c.Int64(); i++ {
				base = Store(base, mkBV(i, 64), x.sliceElem(st, s, mkBV(i, 64)).l[k])
			}
		} else {
			base = mkVar(freshName("app_"+regionName(key)), ArrS(I64, l.sort))
			j := mkBound(freshName("j"), I64)
			if len(sli.idxs) == 1 {
				sArr := Select(st.region(sli.key(sli.lo+k), sli.regionSort(sli.lo+k)), s.l[0])
				st.assume(Forall([]*Term{j}, Implies(idxIn(j, s.l[2]),
					Eq(Select(base, j), Select(sArr, BvBin("bvadd", sli.idxs[0], j))))))
			}
		}
		if smallExtra {
			for i := int64(0); i < exLen.c.Int64(); i++ {
				ev := x.sliceElem(st, extra, mkBV(i, 64))
				base = Store(base, BvBin("bvadd", s.l[2], mkBV(i, 64)), ev.l[k])
			}
		} else if !exString {
			eli := resolveLoc(sliceElemAddr(extra, mkBV(0, 64)))
			nb := mkVar(freshName("app2_"+regionName(key)), ArrS(I64, l.sort))
			j := mkBound(freshName("j"), I64)
			if len(eli.idxs) == 1 {
				eArr := Select(st.region(eli.key(eli.lo+k), eli.regionSort(eli.lo+k)), extra.l[0])
				inEx := And(BvCmp("bvsle", s.l[2], j), BvCmp("bvslt", j, newLen))
				st.assume(Forall([]*Term{j}, Eq(Select(nb, j),
					Ite(inEx, Select(eArr, BvBin("bvadd", eli.idxs[0], BvBin("bvsub", j, s.l[2]))), Select(base, j)))))
			}
			base = nb
		} else {
			nb := mkVar(freshName("app3_"+regionName(key)), ArrS(I64, l.sort))
			j := mkBound(freshName("j"), I64)
			st.assume(Forall([]*Term{j}, Implies(idxIn(j, s.l[2]), Eq(Select(nb, j), Select(base, j)))))
			base = nb
		}
		st.setRegion(key, Store(r, ref, base))
	}
	return res
}
