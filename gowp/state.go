package main

import (
	"fmt"
	"go/types"
	"sort"
	"strings"

	"golang.org/x/tools/go/ssa"
)

// Frame is one activation record of the symbolic executor.
type Frame struct {
	fn       *ssa.Function
	vals     map[ssa.Value]SV
	block    *ssa.BasicBlock
	idx      int
	prev     *ssa.BasicBlock
	call     ssa.CallInstruction // call instruction in the parent frame to bind on return
	visits   map[int]int         // loop header block index -> visits (unroll mode)
	defers   []deferred
	contract *FuncContract
	inCut    map[int]bool // loop headers currently cut (after havoc) in this frame
	iters    map[ssa.Value]*Term // visited-key sets of map range iterators
}

type deferred struct {
	call *ssa.Defer
	args []SV
}

func (f *Frame) clone() *Frame {
	n := *f
	n.vals = make(map[ssa.Value]SV, len(f.vals))
	for k, v := range f.vals {
		n.vals[k] = v
	}
	n.visits = make(map[int]int, len(f.visits))
	for k, v := range f.visits {
		n.visits[k] = v
	}
	n.inCut = make(map[int]bool, len(f.inCut))
	for k, v := range f.inCut {
		n.inCut[k] = v
	}
	n.defers = append([]deferred{}, f.defers...)
	n.iters = make(map[ssa.Value]*Term, len(f.iters))
	for k, v := range f.iters {
		n.iters[k] = v
	}
	return &n
}

type discoverCtx struct {
	depth  int // stack depth of the loop's frame
	header int
	blocks map[int]bool
	writes map[string]bool
	all    bool
	freshBase int // number of allocations made before the discovery started
	// row-precise write sets: for regions only ever updated by store(region, base, _), the base
	// references written; whole[key] is set when some other kind of update was seen
	bases   map[string]map[int]*Term
	whole   map[string]bool
	startID int // term counter when the discovery started: older terms are loop-invariant
	// window-precise write sets for slice backings: per region and base reference the windows [lo, lo+n)
	// of the slices through which elements were written (an element write is inside its slice's window
	// because its bounds check is an obligation); fullRow marks bases also written otherwise
	wins    map[string]map[int][]win
	fullRow map[string]map[int]bool
	curWin  *win
}

type win struct{ lo, n *Term }

// State is one symbolic path state.
type State struct {
	heap   map[string]*Term
	epoch  int
	pc     []*Term
	pcset  map[int]bool
	stack  []*Frame
	nfresh *int
	mute   bool
	disc   *discoverCtx
	entry  *State // snapshot at function entry (for old())
	waitSt *State // snapshot after the most recent sync.Cond.Wait (for atwait()); nil before the first one
	lets   map[string]SV
	trace  []string
	rewrites map[int]*Term // term id -> constant fixed by a case split on this path
}

func (st *State) clone() *State {
	n := *st
	n.heap = make(map[string]*Term, len(st.heap))
	for k, v := range st.heap {
		n.heap[k] = v
	}
	n.pc = append([]*Term{}, st.pc...)
	n.pcset = make(map[int]bool, len(st.pcset))
	for k := range st.pcset {
		n.pcset[k] = true
	}
	n.stack = make([]*Frame, len(st.stack))
	for i, f := range st.stack {
		n.stack[i] = f.clone()
	}
	nf := *st.nfresh
	n.nfresh = &nf
	n.trace = append([]string{}, st.trace...)
	if st.rewrites != nil {
		n.rewrites = make(map[int]*Term, len(st.rewrites))
		for k, v := range st.rewrites {
			n.rewrites[k] = v
		}
	}
	return &n
}

func (st *State) top() *Frame { return st.stack[len(st.stack)-1] }

func (st *State) assume(t *Term) {
	if t == True {
		return
	}
	if t.bound {
		// produced while evaluating under a quantifier (e.g. well-formedness of a value read at a
		// bound index): it mentions a bound variable and cannot be a path assumption; drop it (sound).
		return
	}
	if t.op == "and" {
		for _, a := range t.args {
			st.assume(a)
		}
		return
	}
	if st.pcset[t.id] {
		return
	}
	st.pcset[t.id] = true
	st.pc = append(st.pc, t)
	// constant propagation: an assumed equality with a constant is substituted into values computed later
	if t.op == "=" {
		a, b := t.args[0], t.args[1]
		if b.isConst() && !a.isConst() {
			st.setRewrite(a, b)
		} else if a.isConst() && !b.isConst() {
			st.setRewrite(b, a)
		}
	}
}

func (st *State) setRewrite(t, c *Term) {
	if st.rewrites == nil {
		st.rewrites = map[int]*Term{}
	}
	st.rewrites[t.id] = c
}

func (st *State) infeasible() bool {
	for _, t := range st.pc {
		if t == False {
			return true
		}
		if t.op == "not" && st.pcset[t.args[0].id] {
			return true
		}
	}
	return false
}

// known returns +1 if t is syntactically implied by the path condition, -1 if its negation is, 0 otherwise.
func (st *State) known(t *Term) int {
	if t == True {
		return 1
	}
	if t == False {
		return -1
	}
	if st.pcset[t.id] {
		return 1
	}
	if st.pcset[Not(t).id] {
		return -1
	}
	return 0
}

var globalEpoch int

func (st *State) havocAll() {
	globalEpoch++
	st.epoch = globalEpoch
	st.heap = map[string]*Term{}
	if st.disc != nil {
		st.disc.all = true
	}
}

func regionName(key string) string {
	r := strings.NewReplacer("github.com/scionproto/scion/", "", " ", "", "*", "P", "[", "_", "]", "_", "(", "_", ")", "_", "{", "_", "}", "_", ";", "_", ",", "_", "|", "_", "\"", "_")
	return r.Replace(key)
}

func (st *State) region(key string, s *Sort) *Term {
	regionSorts[key] = s
	if t, ok := st.heap[key]; ok {
		if t.sort != s {
			panic("region sort mismatch for " + key + ": " + t.sort.s + " vs " + s.s)
		}
		return t
	}
	return mkVar(fmt.Sprintf("H%d_%s", st.epoch, regionName(key)), s)
}

func (st *State) setRegion(key string, t *Term) {
	if st.disc != nil {
		st.disc.writes[key] = true
		prev := st.region(key, t.sort)
		rowWrite := false
		if t.op == "store" {
			if t.args[0] == prev || (prev.op == "store" && prev.args[1] == t.args[1] && prev.args[0] == t.args[0]) {
				rowWrite = true
			}
		}
		if t == prev {
			rowWrite = true // no change
		} else if rowWrite {
			if st.disc.bases[key] == nil {
				st.disc.bases[key] = map[int]*Term{}
			}
			bid := t.args[1].id
			st.disc.bases[key][bid] = t.args[1]
			if st.disc.curWin != nil {
				if st.disc.wins == nil {
					st.disc.wins = map[string]map[int][]win{}
				}
				if st.disc.wins[key] == nil {
					st.disc.wins[key] = map[int][]win{}
				}
				dup := false
				for _, w := range st.disc.wins[key][bid] {
					if w.lo == st.disc.curWin.lo && w.n == st.disc.curWin.n {
						dup = true
					}
				}
				if !dup {
					st.disc.wins[key][bid] = append(st.disc.wins[key][bid], *st.disc.curWin)
				}
			} else {
				if st.disc.fullRow == nil {
					st.disc.fullRow = map[string]map[int]bool{}
				}
				if st.disc.fullRow[key] == nil {
					st.disc.fullRow[key] = map[int]bool{}
				}
				st.disc.fullRow[key][bid] = true
			}
		} else {
			st.disc.whole[key] = true
		}
	}
	st.heap[key] = t
}

// olderThan reports whether every variable of t was created before the term counter reached id.
func olderThan(t *Term, id int, memo map[int]bool) bool {
	if v, ok := memo[t.id]; ok {
		return v
	}
	r := true
	if t.op == "var" {
		r = t.id < id
	} else {
		for _, a := range t.args {
			if !olderThan(a, id, memo) {
				r = false
				break
			}
		}
	}
	memo[t.id] = r
	return r
}

type locInfo struct {
	rootKey string
	leaves  []Leaf // root leaves
	lo, hi  int
	idxs    []*Term
	backing bool
	idxSort *Sort
	ty      types.Type // type at the location
}

func resolveLoc(p SV) locInfo {
	info := p.p
	if info == nil {
		et := derefType(p.ty)
		info = &PtrInfo{rootKey: typeKey(et), rootTy: et}
	}
	ty := info.rootTy
	li := locInfo{rootKey: info.rootKey, leaves: leavesOf(ty), backing: info.backing, idxSort: info.idxSort}
	li.lo, li.hi = 0, len(li.leaves)
	steps := info.steps
	if info.backing {
		if len(steps) == 0 || steps[0].field != -1 {
			panic("backing pointer without index step")
		}
		li.idxs = append(li.idxs, steps[0].idx)
		steps = steps[1:]
	}
	for _, s := range steps {
		if s.field >= 0 {
			stt := ty.Underlying().(*types.Struct)
			a, b := fieldRange(stt, s.field)
			li.hi = li.lo + b
			li.lo = li.lo + a
			ty = stt.Field(s.field).Type()
		} else {
			at, ok := ty.Underlying().(*types.Array)
			if !ok {
				panic("index step on non-array " + typeKey(ty))
			}
			li.idxs = append(li.idxs, s.idx)
			ty = at.Elem()
		}
	}
	li.ty = ty
	return li
}

func (li locInfo) regionSort(k int) *Sort {
	s := li.leaves[k].sort
	if li.backing {
		if li.idxSort != nil {
			s = ArrS(li.idxSort, s)
		} else {
			s = ArrS(I64, s)
		}
	}
	return ArrS(RefS, s)
}

func (li locInfo) key(k int) string { return li.rootKey + "#" + li.leaves[k].path }

func (st *State) load(x *Exec, p SV) SV {
	if p.p != nil && len(p.p.steps) == 0 {
		if id, ok := x.errGlobals[p.p.rootKey]; ok {
			// package-level error sentinel assigned once in init: a constant non-nil value
			return SV{ty: p.p.rootTy, l: []*Term{mkBV(int64(0x70000000+id), 32), mkBV(int64(id), 64)}}
		}
	}
	li := resolveLoc(p)
	base := p.l[0]
	out := make([]*Term, 0, li.hi-li.lo)
	for k := li.lo; k < li.hi; k++ {
		t := Select(st.region(li.key(k), li.regionSort(k)), base)
		for _, i := range li.idxs {
			t = Select(t, i)
		}
		out = append(out, t)
	}
	for k, t := range out {
		if isRefLeaf(li.leaves[li.lo+k]) && pristineSelect(t) {
			// a reference read from the heap as it was at entry denotes an object that existed at entry:
			// it is distinct from everything allocated since (allocations are constants >= 0x80000000)
			st.assume(BvCmp("bvult", t, mkBVu(0x80000000, 32)))
		}
	}
	v := SV{ty: li.ty, l: out}
	if _, isChan := li.ty.Underlying().(*types.Chan); isChan && li.hi-li.lo == 1 {
		v.chanKey = li.rootKey + li.leaves[li.lo].path
	}
	x.wf(st, v)
	return v
}

func nestStore(arr *Term, idxs []*Term, val *Term) *Term {
	if len(idxs) == 0 {
		return val
	}
	return Store(arr, idxs[0], nestStore(Select(arr, idxs[0]), idxs[1:], val))
}

func (st *State) store(x *Exec, p SV, v SV) {
	li := resolveLoc(p)
	base := p.l[0]
	if len(v.l) != li.hi-li.lo {
		panic(fmt.Sprintf("store: leaf mismatch storing %s into %s (%d vs %d)", typeKey(v.ty), typeKey(li.ty), len(v.l), li.hi-li.lo))
	}
	// writes to objects allocated inside the loop being discovered are not part of its write set:
	// such objects are fresh in every iteration
	local := false
	if st.disc != nil && base.isConst() && base.c.IsInt64() && base.c.Int64() > int64(0x80000000)+int64(st.disc.freshBase) {
		local = true
	}
	if st.disc != nil {
		st.disc.curWin = nil
		if p.p != nil && p.p.backing && len(p.p.steps) == 1 && p.p.steps[0].lo != nil {
			st.disc.curWin = &win{p.p.steps[0].lo, p.p.steps[0].n}
		}
		defer func() { st.disc.curWin = nil }()
	}
	for k := li.lo; k < li.hi; k++ {
		r := st.region(li.key(k), li.regionSort(k))
		nv := nestStore(Select(r, base), li.idxs, v.l[k-li.lo])
		if local {
			st.heap[li.key(k)] = Store(r, base, nv)
		} else {
			st.setRegion(li.key(k), Store(r, base, nv))
		}
	}
}

// havocLoc replaces the contents of a location by fresh values; coarse: the whole
// leaf at the base object (index steps are ignored).
func (st *State) havocLoc(x *Exec, p SV, hint string) {
	li := resolveLoc(p)
	base := p.l[0]
	for k := li.lo; k < li.hi; k++ {
		s := li.regionSort(k)
		r := st.region(li.key(k), s)
		st.setRegion(li.key(k), Store(r, base, mkVar(freshName("hv_"+hint+li.leaves[k].path), s.elem)))
	}
}

// ----- maps -----

func keyTerm(k SV) *Term {
	var t *Term
	for _, l := range k.l {
		var b *Term
		if l.sort == BoolS {
			b = Ite(l, mkBV(1, 1), mkBV(0, 1))
		} else if l.sort.bv > 0 {
			b = l
		} else {
			panic("unsupported map key leaf sort " + l.sort.s)
		}
		if t == nil {
			t = b
		} else {
			t = Concat(t, b)
		}
	}
	return t
}

func keySort(kt types.Type) *Sort {
	w := 0
	for _, l := range leavesOf(kt) {
		if l.sort == BoolS {
			w++
		} else if l.sort.bv > 0 {
			w += l.sort.bv
		} else {
			panic("unsupported map key type " + typeKey(kt))
		}
	}
	return BV(w)
}

func (st *State) mapLookup(x *Exec, m SV, k SV) (SV, *Term) {
	mt := m.ty.Underlying().(*types.Map)
	ks := keySort(mt.Key())
	mk := "map:" + typeKey(mt)
	kt := keyTerm(k)
	dom := Select(st.region(mk+"#dom", ArrS(RefS, ArrS(ks, BoolS))), m.t())
	ok := And(Neq(m.t(), mkBV(0, 32)), Select(dom, kt))
	ls := leavesOf(mt.Elem())
	out := make([]*Term, len(ls))
	for i, l := range ls {
		r := st.region(mk+"#val"+l.path, ArrS(RefS, ArrS(ks, l.sort)))
		out[i] = Ite(ok, Select(Select(r, m.t()), kt), zeroTerm(l.sort))
	}
	v := SV{ty: mt.Elem(), l: out}
	x.wf(st, v)
	return v, ok
}

func (st *State) mapLen(x *Exec, m SV) *Term {
	mt := m.ty.Underlying().(*types.Map)
	mk := "map:" + typeKey(mt)
	return Select(st.region(mk+"#len", ArrS(RefS, I64)), m.t())
}

func (st *State) mapUpdate(x *Exec, m SV, k SV, v SV) {
	mt := m.ty.Underlying().(*types.Map)
	ks := keySort(mt.Key())
	mk := "map:" + typeKey(mt)
	kt := keyTerm(k)
	domR := st.region(mk+"#dom", ArrS(RefS, ArrS(ks, BoolS)))
	dom := Select(domR, m.t())
	was := Select(dom, kt)
	st.setRegion(mk+"#dom", Store(domR, m.t(), Store(dom, kt, True)))
	lenR := st.region(mk+"#len", ArrS(RefS, I64))
	ln := Select(lenR, m.t())
	st.setRegion(mk+"#len", Store(lenR, m.t(), Ite(was, ln, BvBin("bvadd", ln, mkBV(1, 64)))))
	for i, l := range leavesOf(mt.Elem()) {
		key := mk + "#val" + l.path
		r := st.region(key, ArrS(RefS, ArrS(ks, l.sort)))
		st.setRegion(key, Store(r, m.t(), Store(Select(r, m.t()), kt, v.l[i])))
	}
}

func (st *State) mapDelete(x *Exec, m SV, k SV) {
	mt := m.ty.Underlying().(*types.Map)
	ks := keySort(mt.Key())
	mk := "map:" + typeKey(mt)
	kt := keyTerm(k)
	domR := st.region(mk+"#dom", ArrS(RefS, ArrS(ks, BoolS)))
	dom := Select(domR, m.t())
	was := Select(dom, kt)
	st.setRegion(mk+"#dom", Store(domR, m.t(), Store(dom, kt, False)))
	lenR := st.region(mk+"#len", ArrS(RefS, I64))
	ln := Select(lenR, m.t())
	st.setRegion(mk+"#len", Store(lenR, m.t(), Ite(was, BvBin("bvsub", ln, mkBV(1, 64)), ln)))
}

func (st *State) mapInitEmpty(x *Exec, m SV) {
	mt := m.ty.Underlying().(*types.Map)
	ks := keySort(mt.Key())
	mk := "map:" + typeKey(mt)
	domR := st.region(mk+"#dom", ArrS(RefS, ArrS(ks, BoolS)))
	st.setRegion(mk+"#dom", Store(domR, m.t(), ConstArr(ArrS(ks, BoolS), False)))
	lenR := st.region(mk+"#len", ArrS(RefS, I64))
	st.setRegion(mk+"#len", Store(lenR, m.t(), mkBV(0, 64)))
}

func sortedKeys(m map[string]*Term) []string {
	var ks []string
	for k := range m {
		ks = append(ks, k)
	}
	sort.Strings(ks)
	return ks
}

// pristineSelect reports whether t is select(...select(H0_<region>, i)..., j): a read of the entry heap.
func pristineSelect(t *Term) bool {
	if t.op != "select" {
		return false
	}
	for t.op == "select" {
		t = t.args[0]
	}
	return t.op == "var" && strings.HasPrefix(t.name, "H0_")
}
