package main

import (
	"fmt"
	"go/ast"
	"go/constant"
	"go/token"
	"go/types"
	"math/big"
	"os"
	"sort"
	"strconv"
	"strings"

	"golang.org/x/tools/go/packages"
	"golang.org/x/tools/go/ssa"
)

type Oblig struct {
	name   string
	kind   string // post, pre, inv-init, inv-pres, safe, frame, unwind, lemma, refine, assert
	fn     string
	desc   string
	pos    string
	disj   []*Term
	negs   []*Term // per entry of disj: the negated goal conjunct (nil if unknown)
	raw    []*Term // disj before quantifier instantiation
	rawNegs []*Term
	paths  int
	props  []string
	clause string
	distinct map[[2]int]bool // reference pairs known to differ (from the target's preconditions)
}

type ghostInfo struct {
	ptr   SV
	isMap bool
	keyT  types.Type
	valT  types.Type
	key   string
}

type Exec struct {
	replayTargets map[string]replayTarget // functions under contract of this run, by ssa name
	nameOwner map[string]string
	prog      *ssa.Program
	pkgs      []*packages.Package
	spkgs     map[string]*ssa.Package
	tpkgs     map[string]*types.Package
	contracts map[string]*PkgContracts
	fset      *token.FileSet
	srcLines  map[string][]string

	obligs   map[string]*Oblig
	oblOrder []string
	notes    map[string]bool
	inlined  map[string]bool
	modular  map[string]bool
	havocked map[string]bool
	modelled map[string]bool
	paths    int
	maxPaths int
	target   *ssa.Function
	tcontract *FuncContract
	errs     []string
	funcIDs  map[string]int
	typeIDs  map[string]int
	ghosts   map[string]*ghostInfo
	curProps []string
	pathEnds int
	verbose  bool
	witness  map[string]ast.Expr
	errGlobals map[string]int
	typeByID map[int]types.Type
	iptr     map[int]SV // interior pointers boxed into interfaces, by payload term id
}

func (x *Exec) note(f string, a ...any) { x.notes[fmt.Sprintf(f, a...)] = true }

func (x *Exec) typesPkg(path string) *types.Package { return x.tpkgs[path] }

func (x *Exec) pkgByName(name string) *types.Package {
	var best *types.Package
	for _, p := range x.tpkgs {
		if p.Name() == name {
			if best == nil || len(p.Path()) < len(best.Path()) {
				best = p
			}
		}
	}
	return best
}

func (x *Exec) funcRef(name string) *Term {
	id, ok := x.funcIDs[name]
	if !ok {
		id = len(x.funcIDs) + 1
		x.funcIDs[name] = id
	}
	return mkBV(int64(0x7f000000+id), 32)
}

func (x *Exec) typeTag(t types.Type) *Term {
	k := typeKey(t)
	id, ok := x.typeIDs[k]
	if !ok {
		id = len(x.typeIDs) + 1
		x.typeIDs[k] = id
		if x.typeByID == nil {
			x.typeByID = map[int]types.Type{}
		}
		x.typeByID[id] = t
	}
	return mkBV(int64(id), 32)
}

func (x *Exec) ghost(pkg, name string) *ghostInfo {
	if g, ok := x.ghosts[pkg+"."+name]; ok {
		return g
	}
	if pkg == "time" && name == "lastNow" {
		g := &ghostInfo{ptr: x.lastNowPtr()}
		x.ghosts["time.lastNow"] = g
		return g
	}
	pc := x.contracts[pkg]
	if pc == nil {
		return nil
	}
	for _, g := range pc.ghosts {
		if g.name == name {
			env := &Env{x: x, pkg: x.typesPkg(pkg), vars: map[string]SV{}}
			if mt, ok := g.typ.(*ast.MapType); ok {
				gi := &ghostInfo{isMap: true, keyT: env.resolveType(mt.Key), valT: env.resolveType(mt.Value), key: "GH:" + pkg + "." + name}
				x.ghosts[pkg+"."+name] = gi
				return gi
			}
			ty := env.resolveType(g.typ)
			gi := &ghostInfo{ptr: SV{ty: types.NewPointer(ty), l: []*Term{mkBV(1, 32)},
				p: &PtrInfo{rootKey: "GH:" + pkg + "." + name, rootTy: ty}}}
			x.ghosts[pkg+"."+name] = gi
			return gi
		}
	}
	return nil
}

func (x *Exec) specFunc(pkg, name string) *SpecFunc {
	if pc := x.contracts[pkg]; pc != nil {
		for _, s := range pc.specs {
			if s.name == name {
				return s
			}
		}
	}
	return nil
}

// contractFor finds the contract of a static callee.
func (x *Exec) contractFor(f *ssa.Function) *FuncContract {
	if f.Pkg == nil {
		if f.Origin() != nil && f.Origin().Pkg != nil {
			f = f.Origin()
		} else {
			return nil
		}
	}
	pc := x.contracts[f.Pkg.Pkg.Path()]
	if pc == nil {
		return nil
	}
	return pc.funcs[f.RelString(f.Pkg.Pkg)]
}

// externContract finds an assumed contract for a function outside the repository (declared with
// "extern" in any loaded contract file).
func (x *Exec) externContract(name string) *FuncContract {
	for _, pc := range x.contracts {
		if c := pc.externs[name]; c != nil {
			return c
		}
	}
	return nil
}

func (x *Exec) ifaceContract(recv types.Type, m *types.Func) *FuncContract {
	nt, ok := recv.(*types.Named)
	if !ok {
		if a, ok2 := recv.(*types.Alias); ok2 {
			nt, ok = types.Unalias(a).(*types.Named)
		}
		if !ok {
			return nil
		}
	}
	if nt.Obj().Pkg() == nil {
		return nil
	}
	pc := x.contracts[nt.Obj().Pkg().Path()]
	if pc == nil {
		// contracts for foreign interfaces may be declared in any package as "pkgname.Iface.Method"
		for _, c := range x.contracts {
			if fc := c.ifaces[nt.Obj().Pkg().Name()+"."+nt.Obj().Name()+"."+m.Name()]; fc != nil {
				return fc
			}
		}
		return nil
	}
	if fc := pc.ifaces[nt.Obj().Name()+"."+m.Name()]; fc != nil {
		return fc
	}
	for _, c := range x.contracts {
		if fc := c.ifaces[nt.Obj().Pkg().Name()+"."+nt.Obj().Name()+"."+m.Name()]; fc != nil {
			return fc
		}
	}
	return nil
}

func (x *Exec) srcLine(pos token.Pos) (string, string) {
	if !pos.IsValid() {
		return "?", ""
	}
	p := x.fset.Position(pos)
	ls, ok := x.srcLines[p.Filename]
	if !ok {
		b, err := os.ReadFile(p.Filename)
		if err == nil {
			ls = strings.Split(string(b), "\n")
		}
		x.srcLines[p.Filename] = ls
	}
	txt := ""
	if p.Line-1 < len(ls) && p.Line > 0 {
		txt = strings.TrimSpace(ls[p.Line-1])
	}
	short := p.Filename
	if i := strings.Index(short, "/repo/"); i >= 0 {
		short = short[i+6:]
	}
	return fmt.Sprintf("%s:%d", short, p.Line), txt
}

func (x *Exec) oblige(st *State, name, kind, desc string, pos token.Pos, goal *Term) {
	if st.mute {
		return
	}
	o := x.obligs[name]
	if o == nil {
		p, _ := x.srcLine(pos)
		o = &Oblig{name: name, kind: kind, fn: x.target.String(), desc: desc, pos: p, props: x.curProps, distinct: knownDistinct}
		x.obligs[name] = o
		x.oblOrder = append(x.oblOrder, name)
	}
	o.paths++
	if goal == True {
		return
	}
	if w, ok := x.witness[name]; ok && st.entry != nil {
		// known finding: prove the obligation outside the recorded failing class W
		vars := map[string]SV{}
		fn := st.entry.stack[0].fn
		for _, p := range fn.Params {
			vars[p.Name()] = st.entry.stack[0].vals[p]
		}
		for k, v := range st.lets {
			vars[k] = v
		}
		env := &Env{x: x, st: st.entry, vars: vars, pkg: fn.Pkg.Pkg}
		wt, err := env.EvalBool(w)
		if err != nil {
			panic(abortErr{"known-finding witness: " + err.Error()})
		}
		goal = Or(wt, goal)
	}
	if st.known(goal) == 1 {
		return
	}
	f := And(append(append([]*Term{}, st.pc...), Not(goal))...)
	if f == False {
		return
	}
	o.disj = append(o.disj, f)
	for len(o.negs) < len(o.disj)-1 {
		o.negs = append(o.negs, nil)
	}
	o.negs = append(o.negs, Not(goal))
}

func (x *Exec) safe(st *State, fr *Frame, kind string, pos token.Pos, goal *Term) {
	if st.mute || goal == True {
		return
	}
	if x.tcontract != nil && x.tcontract.noSafety {
		// declared restriction of this function's contract: only executions without run-time panic are considered
		x.havocked["run-time safety not checked (nosafety): "+x.targetName()] = true
		st.assume(goal)
		return
	}
	_, txt := x.srcLine(pos)
	fn := fr.fn.RelString(nil)
	if fr.fn.Pkg != nil {
		fn = fr.fn.RelString(fr.fn.Pkg.Pkg)
	}
	name := fmt.Sprintf("safe:%s:%s:%s", x.targetName(), kind, txt)
	if fr.fn != x.target {
		name = fmt.Sprintf("safe:%s:%s:%s:%s", x.targetName(), kind, fn, txt)
	}
	x.oblige(st, name, "safe", kind+" at "+txt, pos, goal)
}

// targetName is the package-relative name of the function being verified; if a function of the same
// name in another package was verified earlier in this run, the last path element of the package is
// prefixed (obligation names must be unique per property).
func (x *Exec) targetName() string {
	if x.target.Pkg != nil {
		rel := x.target.RelString(x.target.Pkg.Pkg)
		pp := x.target.Pkg.Pkg.Path()
		if x.nameOwner == nil {
			x.nameOwner = map[string]string{}
		}
		if o, ok := x.nameOwner[rel]; ok && o != pp {
			return pp[strings.LastIndex(pp, "/")+1:] + "." + rel
		}
		x.nameOwner[rel] = pp
		return rel
	}
	return x.target.String()
}

// wf adds the standing well-formedness assumptions for slices (A6).
func (x *Exec) wf(st *State, v SV) {
	ls := leavesOf(v.ty)
	if len(ls) != len(v.l) {
		return
	}
	lim := mkBVu(1<<40, 64)
	for i := 0; i < len(ls); i++ {
		if ls[i].kind == "tag" && ls[i].sort.bv == 32 && i+1 < len(ls) && !v.l[i].isConst() {
			// canonical nil interface: no dynamic type => no payload
			st.assume(Implies(Eq(v.l[i], mkBV(0, 32)), Eq(v.l[i+1], mkBV(0, 64))))
		}
		if ls[i].kind == "len" && ls[i].sort == I64 {
			ln, cp, off := v.l[i], v.l[i+1], v.l[i-1]
			if ln.isConst() && cp.isConst() && off.isConst() {
				continue
			}
			st.assume(lenLe(ln, cp))
			st.assume(BvCmp("bvsle", cp, lim))
			st.assume(lenLe(off, lim))
			if i >= 2 && ls[i-2].kind == "arr" && !v.l[i-2].isConst() {
				// a non-empty slice has a backing array
				st.assume(Implies(BvCmp("bvslt", mkBV(0, 64), ln), Neq(v.l[i-2], nilRef)))
			}
		}
	}
}

func (x *Exec) freshRef(st *State) *Term {
	*st.nfresh++
	return mkBV(int64(0x80000000)+int64(*st.nfresh), 32)
}

func (fr *Frame) get(x *Exec, v ssa.Value) SV {
	switch c := v.(type) {
	case *ssa.Const:
		return constSV(c)
	case *ssa.Global:
		return SV{ty: c.Type(), l: []*Term{mkBV(1, 32)},
			p: &PtrInfo{rootKey: "G:" + c.Pkg.Pkg.Path() + "." + c.Name(), rootTy: derefType(c.Type())}}
	case *ssa.Function:
		return scalarSV(c.Type(), x.funcRef(c.String()))
	case *ssa.Builtin:
		return scalarSV(c.Type(), mkBV(0, 32))
	}
	sv, ok := fr.vals[v]
	if !ok {
		panic(fmt.Sprintf("no value for %s (%T) in %s", v.Name(), v, fr.fn))
	}
	return sv
}

func constSV(c *ssa.Const) SV {
	ty := c.Type()
	if c.Value == nil {
		return zeroSV(ty)
	}
	s := scalarSort(ty)
	if s == nil {
		panic("const of non-scalar type " + typeKey(ty))
	}
	switch c.Value.Kind() {
	case constant.Bool:
		return scalarSV(ty, mkBool(constant.BoolVal(c.Value)))
	case constant.Int:
		bi, _ := new(big.Int).SetString(c.Value.ExactString(), 10)
		return scalarSV(ty, mkBVbig(bi, s.bv))
	case constant.String:
		return scalarSV(ty, strConst(constant.StringVal(c.Value)))
	case constant.Float:
		if isInt(ty) {
			iv := constant.ToInt(c.Value)
			bi, _ := new(big.Int).SetString(iv.ExactString(), 10)
			return scalarSV(ty, mkBVbig(bi, s.bv))
		}
		return scalarSV(ty, mkVar(freshName("float"), s))
	}
	return scalarSV(ty, mkVar(freshName("const"), s))
}

// ---------- loops ----------

type loopInfo struct {
	header  *ssa.BasicBlock
	blocks  map[int]bool
	ordinal int
}

var loopCache = map[*ssa.Function][]*loopInfo{}

func loopsOf(fn *ssa.Function) []*loopInfo {
	if l, ok := loopCache[fn]; ok {
		return l
	}
	byHeader := map[int]*loopInfo{}
	for _, b := range fn.Blocks {
		for _, s := range b.Succs {
			if s.Dominates(b) { // back edge b -> s
				li := byHeader[s.Index]
				if li == nil {
					li = &loopInfo{header: s, blocks: map[int]bool{s.Index: true}}
					byHeader[s.Index] = li
				}
				// natural loop: nodes reaching b without passing s
				var stack []*ssa.BasicBlock
				if !li.blocks[b.Index] {
					li.blocks[b.Index] = true
					stack = append(stack, b)
				}
				for len(stack) > 0 {
					n := stack[len(stack)-1]
					stack = stack[:len(stack)-1]
					for _, p := range n.Preds {
						if !li.blocks[p.Index] {
							li.blocks[p.Index] = true
							stack = append(stack, p)
						}
					}
				}
			}
		}
	}
	var ls []*loopInfo
	for _, l := range byHeader {
		ls = append(ls, l)
	}
	// order by source position of the header's first positioned instruction, fall back to index
	sort.Slice(ls, func(i, j int) bool { return ls[i].header.Index < ls[j].header.Index })
	for i, l := range ls {
		l.ordinal = i + 1
	}
	loopCache[fn] = ls
	return ls
}

func loopAt(fn *ssa.Function, b *ssa.BasicBlock) *loopInfo {
	for _, l := range loopsOf(fn) {
		if l.header == b {
			return l
		}
	}
	return nil
}

// localResolver resolves source-level variable names at a loop header.
func (x *Exec) localResolver(st *State, fr *Frame, at *ssa.BasicBlock) func(string) (SV, bool) {
	return x.localResolverAt(st, fr, at, nil)
}

// localResolverAt resolves names at a program point inside block at: just before instruction `before` (the debug
// references of that block that precede it count), or at the head of the block when before is nil.
func (x *Exec) localResolverAt(st *State, fr *Frame, at *ssa.BasicBlock, before ssa.Instruction) func(string) (SV, bool) {
	upTo := func(b *ssa.BasicBlock) int {
		if b != at {
			return len(b.Instrs)
		}
		if before == nil {
			return 0
		}
		for i, ins := range b.Instrs {
			if ins == before {
				return i
			}
		}
		return 0
	}
	return func(name string) (SV, bool) {
		// phis in the header, then in dominating blocks (nearest first); a suffix __N skips the N nearest
		// matches (the same-named variable of the N-th enclosing loop)
		if strings.HasSuffix(name, "__first") {
			// the value the source variable was given first (its earliest definition that dominates this point)
			name = strings.TrimSuffix(name, "__first")
			var first SV
			found := false
			for b := at; b != nil; b = b.Idom() {
				for i := upTo(b) - 1; i >= 0; i-- {
					dr, ok := b.Instrs[i].(*ssa.DebugRef)
					if !ok {
						continue
					}
					if id, ok := dr.Expr.(*ast.Ident); ok && id.Name == name {
						v, ok := fr.vals[dr.X]
						if !ok && isConstVal(dr.X) {
							v, ok = fr.get(x, dr.X), true
						}
						if ok {
							if dr.IsAddr {
								v = st.load(x, v)
							}
							first, found = v, true
						}
					}
				}
			}
			return first, found
		}
		if strings.HasSuffix(name, "__now") {
			// the value the source variable has at this point: nearest definition or use in dominator order
			// (a block's debug references come after its phis)
			name = strings.TrimSuffix(name, "__now")
			for b := at; b != nil; b = b.Idom() {
				{
					for i := upTo(b) - 1; i >= 0; i-- {
						dr, ok := b.Instrs[i].(*ssa.DebugRef)
						if !ok {
							continue
						}
						if id, ok := dr.Expr.(*ast.Ident); ok && id.Name == name {
							v, ok := fr.vals[dr.X]
							if !ok && isConstVal(dr.X) {
								v, ok = fr.get(x, dr.X), true
							}
							if ok {
								if dr.IsAddr {
									v = st.load(x, v)
								}
								return v, true
							}
						}
					}
				}
				for _, ins := range b.Instrs {
					ph, ok := ins.(*ssa.Phi)
					if !ok {
						break
					}
					if ph.Comment == name {
						if v, ok := fr.vals[ph]; ok {
							return v, true
						}
					}
				}
			}
			for _, p := range fr.fn.Params {
				if p.Name() == name {
					return fr.vals[p], true
				}
			}
			return SV{}, false
		}
		skip := 0
		if i := strings.LastIndex(name, "__"); i > 0 {
			if n, err := strconv.Atoi(name[i+2:]); err == nil {
				skip = n
				name = name[:i]
			}
		}
		for b := at; b != nil; b = b.Idom() {
			for _, ins := range b.Instrs {
				ph, ok := ins.(*ssa.Phi)
				if !ok {
					break
				}
				if ph.Comment == name || strings.ReplaceAll(ph.Comment, ".", "_") == name {
					if v, ok := fr.vals[ph]; ok {
						if skip > 0 {
							skip--
							continue
						}
						return v, true
					}
				}
			}
		}
		for _, p := range fr.fn.Params {
			if p.Name() == name {
				return fr.vals[p], true
			}
		}
		for _, p := range fr.fn.FreeVars {
			if p.Name() == name {
				v := fr.vals[p]
				// free vars are pointers to the captured variable
				return st.load(x, v), true
			}
		}
		// debug refs: last one in a dominating block
		var best SV
		found := false
		for b := at; b != nil && !found; b = b.Idom() {
			// (at the head of a block its own instructions come after the point of interest)
			for i := upTo(b) - 1; i >= 0; i-- {
				if dr, ok := b.Instrs[i].(*ssa.DebugRef); ok {
					if id, ok := dr.Expr.(*ast.Ident); ok && id.Name == name {
						if v, ok := fr.vals[dr.X]; ok || isConstVal(dr.X) {
							if !ok {
								v = fr.get(x, dr.X)
							}
							if dr.IsAddr {
								v = st.load(x, v)
							}
							best = v
							found = true
							break
						}
					}
				}
			}
		}
		return best, found
	}
}

func isConstVal(v ssa.Value) bool {
	switch v.(type) {
	case *ssa.Const, *ssa.Global, *ssa.Function:
		return true
	}
	return false
}

// ---------- entry points ----------

func (x *Exec) reset(fn *ssa.Function, c *FuncContract) {
	x.target = fn
	x.tcontract = c
	x.paths = 0
	x.pathEnds = 0
}

type abortErr struct{ msg string }

// VerifyFunc generates all obligations for one function under contract.
func (x *Exec) VerifyFunc(fn *ssa.Function, c *FuncContract) (err error) {
	x.reset(fn, c)
	x.curProps = c.props
	knownDistinct = map[[2]int]bool{}
	defer func() { knownDistinct = map[[2]int]bool{} }()
	defer func() {
		if r := recover(); r != nil {
			switch e := r.(type) {
			case abortErr:
				err = fmt.Errorf("%s: %s", fn, e.msg)
			case evalErr:
				err = fmt.Errorf("%s: contract error: %s", fn, e.msg)
			default:
				// the contract no longer fits the code (e.g. a map invariant over a variable that is no
				// longer a map): a generator error, reported like any other, not a crash of the check
				if os.Getenv("GOWP_PANIC") != "" {
					panic(r)
				}
				err = fmt.Errorf("%s: contract does not apply to the current code (internal error: %v)", fn, r)
			}
		}
	}()
	if len(fn.Blocks) == 0 {
		return fmt.Errorf("%s has no body", fn)
	}
	nf := 0
	st := &State{heap: map[string]*Term{}, pcset: map[int]bool{}, nfresh: &nf, lets: map[string]SV{}}
	fr := &Frame{fn: fn, vals: map[ssa.Value]SV{}, visits: map[int]int{}, inCut: map[int]bool{}, contract: c}
	st.stack = []*Frame{fr}
	vars := map[string]SV{}
	preExisting := mkBVu(0x80000000, 32)
	bind := func(name string, ty types.Type, v ssa.Value) {
		sv := namedSV(ty, "in_"+name)
		x.wf(st, sv)
		for i, l := range leavesOf(ty) {
			if isRefLeaf(l) {
				st.assume(BvCmp("bvult", sv.l[i], preExisting))
			}
		}
		fr.vals[v] = sv
		vars[name] = sv
	}
	for i, p := range fn.Params {
		bind(p.Name(), p.Type(), p)
		if i == 0 && fn.Signature.Recv() != nil {
			if _, ok := p.Type().Underlying().(*types.Pointer); ok {
				st.assume(Neq(fr.vals[p].t(), mkBV(0, 32)))
			}
		}
	}
	for _, p := range fn.FreeVars {
		bind(p.Name(), p.Type(), p)
		if _, isPtr := p.Type().Underlying().(*types.Pointer); isPtr {
			st.assume(Neq(fr.vals[p].t(), mkBV(0, 32)))
			// captured by reference: in contracts the name denotes the variable's value at entry
			vars[p.Name()] = st.load(x, fr.vals[p])
			st.lets[p.Name()] = vars[p.Name()]
		}
	}
	fr.block = fn.Blocks[0]
	x.maxPaths = 4000
	if c.maxPaths > 0 {
		x.maxPaths = c.maxPaths
	}
	// case splits come first: one run per combination of values (the chosen constants are substituted
	// for the split expression wherever it is recomputed); exhaustiveness is an obligation
	states := []*State{st}
	env0 := &Env{x: x, st: st, vars: vars, pkg: fn.Pkg.Pkg}
	for si, sp := range c.splits {
		v, e := env0.EvalAny(sp.expr, nil)
		if e != nil {
			return fmt.Errorf("%s:%d: split %s: %v", sp.file, sp.line, sp.text, e)
		}
		var alts []*Term
		var next []*State
		for _, ve := range sp.exprs {
			cv, e := env0.EvalAny(ve, v.ty)
			if e != nil {
				return fmt.Errorf("%s:%d: split value: %v", sp.file, sp.line, e)
			}
			eq := eqSV(v, cv)
			alts = append(alts, eq)
			for _, s0 := range states {
				s1 := s0.clone()
				s1.assume(eq)
				if len(v.l) == 1 && len(cv.l) == 1 && cv.l[0].isConst() && !v.l[0].isConst() {
					if s1.rewrites == nil {
						s1.rewrites = map[int]*Term{}
					}
					s1.rewrites[v.l[0].id] = cv.l[0]
				}
				next = append(next, s1)
			}
		}
		// exhaustive under the preconditions
		pst := st.clone()
		pst.lets = map[string]SV{}
		pvars := map[string]SV{}
		for n, v := range vars {
			pvars[n] = v
		}
		penv := &Env{x: x, st: pst, vars: pvars, pkg: fn.Pkg.Pkg}
		for _, l := range c.lets {
			if v, e := penv.EvalAny(l.expr, nil); e == nil {
				pst.lets[l.name] = v
				pvars[l.name] = v
			}
		}
		for _, r := range c.requires {
			if t, e := penv.EvalBool(r.expr); e == nil {
				pst.assume(t)
			}
		}
		pst.entry = pst
		x.oblige(pst, fmt.Sprintf("split:%s#%d", x.targetName(), si+1), "pre", "case split "+sp.text+" is exhaustive", token.NoPos, Or(alts...))
		states = next
	}
	lets0 := st.lets
	for k, s1 := range states {
		// per case: lets, preconditions, entry snapshot
		vars1 := map[string]SV{}
		for n, v := range vars {
			vars1[n] = v
		}
		s1.lets = map[string]SV{}
		for n, v := range lets0 {
			s1.lets[n] = v
		}
		env := &Env{x: x, st: s1, vars: vars1, pkg: fn.Pkg.Pkg}
		for _, l := range c.lets {
			v, e := env.EvalAny(l.expr, nil)
			if e != nil {
				return fmt.Errorf("%s:%d: let %s: %v", l.file, l.line, l.text, e)
			}
			s1.lets[l.name] = v
			vars1[l.name] = v
		}
		for _, r := range c.requires {
			t, e := env.EvalBool(r.expr)
			if e != nil {
				return fmt.Errorf("%s:%d: requires %s: %v", r.file, r.line, r.text, e)
			}
			s1.assume(t)
			recordDistinct(t)
		}
		s1.entry = s1.clone()
		if k == 0 {
			// vacuity: the precondition must be satisfiable
			x.coverPre(s1)
		}
		x.run(s1)
	}
	if x.pathEnds == 0 {
		return fmt.Errorf("%s: no path reached a return", fn)
	}
	return nil
}

func (x *Exec) coverPre(st *State) {
	name := "cover:" + x.targetName() + ":requires"
	o := &Oblig{name: name, kind: "cover", fn: x.target.String(), desc: "precondition satisfiable", props: x.curProps}
	o.disj = []*Term{And(st.pc...)}
	o.paths = 1
	x.obligs[name] = o
	x.oblOrder = append(x.oblOrder, name)
}

// finish is called when the target function returns.
func (x *Exec) finish(st *State, fr *Frame, results []SV, pos token.Pos) {
	x.pathEnds++
	c := x.tcontract
	vars := map[string]SV{}
	for _, p := range fr.fn.Params {
		vars[p.Name()] = st.entry.stack[0].vals[p]
	}
	for _, p := range fr.fn.FreeVars {
		vars[p.Name()] = st.entry.stack[0].vals[p]
	}
	for k, v := range st.lets {
		vars[k] = v
	}
	bindResults(vars, fr.fn.Signature, results)
	if os.Getenv("GOWP_DEBUG") != "" {
		for k, v := range vars {
			fmt.Fprintf(os.Stderr, "finish var %s = %v\n", k, v.l)
		}
	}
	env := &Env{x: x, st: st, oldSt: st.entry, vars: vars, pkg: fr.fn.Pkg.Pkg}
	x.applyGsets(st, env, c)
	for i, en := range c.ensures {
		t, e := env.EvalBool(en.expr)
		if e != nil {
			panic(abortErr{fmt.Sprintf("%s:%d: ensures %s: %v", en.file, en.line, en.text, e)})
		}
		name := fmt.Sprintf("post:%s#%d", x.targetName(), i+1)
		x.oblige(st, name, "post", en.text, pos, t)
		x.obligs[name].clause = en.text
		// vacuity guard: a postcondition "A ==> B" must be able to apply - some path reaches a return with A
		if ce, ok := en.expr.(*ast.CallExpr); ok && !st.mute {
			if id, ok := ce.Fun.(*ast.Ident); ok && id.Name == "implies_" && len(ce.Args) == 2 {
				if a, e := env.EvalBool(ce.Args[0]); e == nil {
					cn := fmt.Sprintf("cover:post:%s#%d:antecedent", x.targetName(), i+1)
					o := x.obligs[cn]
					if o == nil {
						o = &Oblig{name: cn, kind: "cover", fn: x.target.String(), desc: "some path makes the antecedent of this postcondition true: " + en.text, props: x.curProps}
						x.obligs[cn] = o
						x.oblOrder = append(x.oblOrder, cn)
					}
					if len(o.disj) < 64 && a != False {
						o.disj = append(o.disj, And(append(append([]*Term{}, st.pc...), a)...))
					}
					o.paths++
				}
			}
		}
	}
	if c.hasMod {
		x.frameCheck(st, fr, env, c, pos)
	}
}

func bindResults(vars map[string]SV, sig *types.Signature, results []SV) {
	rs := sig.Results()
	for i := 0; i < rs.Len(); i++ {
		if i >= len(results) {
			break
		}
		vars[fmt.Sprintf("result%d", i)] = results[i]
		if n := rs.At(i).Name(); n != "" && n != "_" {
			vars[n] = results[i]
		}
	}
	if rs.Len() == 1 && len(results) == 1 {
		vars["result"] = results[0]
	}
}

type permitted struct {
	key   string
	base  *Term
	rng   bool  // only indices [off, off+n) of a slice backing
	off   *Term
	n     *Term
	ent   bool
	idx   *Term
	cond  *Term
}

// modLoc is one evaluated modifies designator.
type modLoc struct {
	ptr SV
	rng bool // s[:] designator: only [off, off+n) of the backing array
	off *Term
	n   *Term
	ent bool // single entry of a ghost map
	idx *Term
	cond *Term // nil or condition (over the pre-state) under which the location may change
}

func (x *Exec) modTargets(env *Env, c *FuncContract) []permitted {
	var out []permitted
	for _, g := range c.gsets {
		for _, ml := range x.modLocs(env, g.exprs[0]) {
			li := resolveLoc(ml.ptr)
			for k := li.lo; k < li.hi; k++ {
				out = append(out, permitted{key: li.key(k), base: ml.ptr.l[0], ent: ml.ent, idx: ml.idx})
			}
		}
	}
	for _, m := range c.modifies {
		cond := x.modCond(env, m)
		if cond == False {
			continue
		}
		for _, e := range m.exprs {
			for _, ml := range x.modLocs(env, e) {
				li := resolveLoc(ml.ptr)
				for k := li.lo; k < li.hi; k++ {
					out = append(out, permitted{key: li.key(k), base: ml.ptr.l[0], rng: ml.rng, off: ml.off, n: ml.n, ent: ml.ent, idx: ml.idx, cond: cond})
				}
			}
		}
	}
	return out
}

// modCond evaluates the condition of a conditional modifies clause in the pre-state (nil: unconditional).
func (x *Exec) modCond(env *Env, m *Clause) *Term {
	if m.expr == nil {
		return nil
	}
	oe := *env
	if env.oldSt != nil {
		oe.st = env.oldSt
	}
	t, err := oe.EvalBool(m.expr)
	if err != nil {
		panic(abortErr{fmt.Sprintf("%s:%d: modifies %s: %v", m.file, m.line, m.text, err)})
	}
	if t == True {
		return nil
	}
	return t
}

// modLocs evaluates a modifies designator to locations (in the old state).
func (x *Exec) modLocs(env *Env, e ast.Expr) []modLoc {
	oe := *env
	if env.oldSt != nil {
		oe.st = env.oldSt
	}
	switch n := e.(type) {
	case *ast.StarExpr:
		v := oe.eval(n.X, nil)
		return []modLoc{{ptr: v}}
	case *ast.CallExpr:
		if id, ok := n.Fun.(*ast.Ident); ok && id.Name == "arr" && len(n.Args) == 1 {
			// arr(s): the whole backing array of slice s (coarse, quantifier-free)
			s := oe.eval(n.Args[0], nil)
			if len(s.l) < 3 {
				panic(evalErr{"arr() needs a slice"})
			}
			return []modLoc{{ptr: sliceElemAddr(s, mkBV(0, 64))}}
		}
	case *ast.SliceExpr: // s[:] : the elements of s
		s := oe.eval(n, nil)
		p := sliceElemAddr(s, mkBV(0, 64))
		li := resolveLoc(p)
		if li.backing && len(li.idxs) == 1 && li.idxSort == nil {
			return []modLoc{{ptr: p, rng: true, off: s.l[1], n: s.l[2]}}
		}
		return []modLoc{{ptr: p}}
	}
	p := oe.evalAddr(e)
	if ix, ok := e.(*ast.IndexExpr); ok && p.p != nil && p.p.idxSort != nil && len(p.p.steps) == 1 {
		_ = ix
		return []modLoc{{ptr: p, ent: true, idx: p.p.steps[0].idx}}
	}
	return []modLoc{{ptr: p}}
}

// applyGsets performs the ghost updates of a contract (lhs evaluated in the old state, rhs in the new).
func (x *Exec) applyGsets(st *State, env *Env, c *FuncContract) {
	for _, g := range c.gsets {
		var v SV
		var target SV
		func() {
			defer func() {
				if r := recover(); r != nil {
					if ee, ok := r.(evalErr); ok {
						panic(abortErr{fmt.Sprintf("%s:%d: gset %s: %s", g.file, g.line, g.text, ee.msg)})
					}
					panic(r)
				}
			}()
			mls := x.modLocs(env, g.exprs[0])
			target = mls[0].ptr
			v = env.eval(g.expr, derefType(target.ty))
		}()
		st.store(x, target, v)
	}
}

// havocMod havocs one modifies designator in st.
func (x *Exec) havocMod(st *State, ml modLoc, hint string) {
	if ml.ent {
		li := resolveLoc(ml.ptr)
		base := ml.ptr.l[0]
		for k := li.lo; k < li.hi; k++ {
			s := li.regionSort(k)
			r := st.region(li.key(k), s)
			old := Select(r, base)
			st.setRegion(li.key(k), Store(r, base, Store(old, ml.idx, mkVar(freshName("hv_"+hint+li.leaves[k].path), s.elem.elem))))
		}
		return
	}
	if !ml.rng {
		st.havocLoc(x, ml.ptr, hint)
		return
	}
	li := resolveLoc(ml.ptr)
	base := ml.ptr.l[0]
	for k := li.lo; k < li.hi; k++ {
		s := li.regionSort(k)
		r := st.region(li.key(k), s)
		old := Select(r, base)
		nw := mkVar(freshName("hv_"+hint+li.leaves[k].path), s.elem)
		j := mkBound(freshName("j"), I64)
		outside := Or(BvCmp("bvslt", j, ml.off), BvCmp("bvsge", j, BvBin("bvadd", ml.off, ml.n)))
		st.assume(Forall([]*Term{j}, Implies(outside, Eq(Select(nw, j), Select(old, j)))))
		st.setRegion(li.key(k), Store(r, base, nw))
	}
}

func (x *Exec) frameCheck(st *State, fr *Frame, env *Env, c *FuncContract, pos token.Pos) {
	name := "frame:" + x.targetName()
	if st.epoch != st.entry.epoch {
		x.oblige(st, name, "frame", "modifies clause (a callee without frame havocked the heap)", pos, False)
		return
	}
	perm := x.modTargets(env, c)
	// variables captured by reference are the closure's own locals: writing them is not a frame violation
	for _, fv := range fr.fn.FreeVars {
		if _, isPtr := fv.Type().Underlying().(*types.Pointer); isPtr {
			pv := st.entry.stack[0].vals[fv]
			li := resolveLoc(pv)
			for k := li.lo; k < li.hi; k++ {
				perm = append(perm, permitted{key: li.key(k), base: pv.l[0]})
			}
		}
	}
	var goals []*Term
	usesJ := false
	r := mkVar("frame!r", RefS)
	jj := mkVar("frame!j", I64)
	// objects that existed at entry; the nil reference is not an object (nothing is stored "at nil")
	pre := And(BvCmp("bvult", r, mkBVu(0x80000000, 32)), Neq(r, mkBV(0, 32)))
	for _, key := range sortedKeys(st.heap) {
		now := st.heap[key]
		init := st.entry.region(key, now.sort)
		if now == init {
			continue
		}
		conds := []*Term{pre}
		isBacking := strings.HasPrefix(key, "[]") && now.sort.elem.idx == I64
		isGhostMap := strings.HasPrefix(key, "GH:") && now.sort.elem.idx != nil
		var gj *Term
		if isGhostMap {
			gj = mkVar("frame!k"+now.sort.elem.idx.s, now.sort.elem.idx)
		}
		for _, p := range perm {
			if p.key != key {
				continue
			}
			var hit *Term
			if p.ent && isGhostMap {
				hit = Eq(gj, p.idx)
			} else if p.rng && isBacking {
				inside := And(BvCmp("bvsle", p.off, jj), BvCmp("bvslt", jj, BvBin("bvadd", p.off, p.n)))
				hit = And(Eq(r, p.base), inside)
			} else {
				hit = Eq(r, p.base)
			}
			if p.cond != nil {
				hit = And(p.cond, hit)
			}
			conds = append(conds, Not(hit))
		}
		if os.Getenv("GOWP_FRAME_SPLIT") != "" {
			defer func(n int, key string) {
				if len(goals) > n {
					x.oblige(st, name+":"+regionName(key), "frame", "region "+key+" changes only as permitted", pos, goals[n])
				}
			}(len(goals), key)
		}
		if isGhostMap {
			goals = append(goals, Implies(And(conds...), Eq(Select(Select(now, r), gj), Select(Select(init, r), gj))))
		} else if isBacking {
			usesJ = true
			goals = append(goals, Implies(And(conds...), Eq(Select(Select(now, r), jj), Select(Select(init, r), jj))))
		} else {
			goals = append(goals, Implies(And(conds...), Eq(Select(now, r), Select(init, r))))
		}
	}
	if usesJ {
		// the element index is split into three ranges: inside the range of valid indices (A6) the
		// comparisons with it can be normalised (linarith.go); outside it no write can hit
		lim := mkBVu(1<<42, 64)
		for _, rg := range []*Term{BvCmp("bvslt", jj, mkBV(0, 64)),
			And(BvCmp("bvsle", mkBV(0, 64), jj), BvCmp("bvsle", jj, lim)),
			BvCmp("bvslt", lim, jj)} {
			x.oblige(st, name, "frame", "only locations in the modifies clause change", pos, Implies(rg, And(goals...)))
		}
		return
	}
	x.oblige(st, name, "frame", "only locations in the modifies clause change", pos, And(goals...))
}

// ---------- lemma ----------

func (x *Exec) VerifyLemma(l *Lemma) error {
	tp := x.typesPkg(l.pkg)
	env := &Env{x: x, pkg: tp, vars: map[string]SV{}, inSpec: true}
	t, err := env.EvalBool(l.expr)
	if err != nil {
		return fmt.Errorf("%s:%d: lemma %s: %v", l.file, l.line, l.name, err)
	}
	name := "lemma:" + shortPkg(l.pkg) + "." + l.name
	o := &Oblig{name: name, kind: "lemma", fn: l.pkg, desc: l.text, props: l.props, clause: l.text}
	o.paths = 1
	if nt := Not(t); nt != False {
		o.disj = []*Term{skolemize(nt, true)}
	}
	x.obligs[name] = o
	x.oblOrder = append(x.oblOrder, name)
	return nil
}
