package main

import (
	"fmt"
	"go/types"

	"golang.org/x/tools/go/ssa"
)

type types_Package = types.Package

// time.Time is modelled abstractly (A8): leaf "wall" is 1 for every instant produced by Now/Unix
// (0 only in the zero value), leaf "ext" holds Unix nanoseconds, "loc" is ignored.

func timeSV(ty types.Type, nanos *Term) SV {
	ls := leavesOf(ty)
	out := make([]*Term, len(ls))
	for i, l := range ls {
		switch l.path {
		case ".wall":
			out[i] = mkBV(1, 64)
		case ".ext":
			out[i] = nanos
		default:
			out[i] = zeroTerm(l.sort)
		}
	}
	return SV{ty: ty, l: out}
}

func timeNanos(v SV) *Term {
	for i, l := range leavesOf(v.ty) {
		if l.path == ".ext" {
			return v.l[i]
		}
	}
	panic("not a time.Time")
}

func timeWall(v SV) *Term {
	for i, l := range leavesOf(v.ty) {
		if l.path == ".wall" {
			return v.l[i]
		}
	}
	panic("not a time.Time")
}

func (x *Exec) lastNowPtr() SV {
	ty := types.Typ[types.Int64]
	return SV{ty: types.NewPointer(ty), l: []*Term{mkBV(1, 32)}, p: &PtrInfo{rootKey: "GH:time.lastNow", rootTy: ty}}
}

// modelCall gives built-in models for selected library functions.
func (x *Exec) modelCall(st *State, fr *Frame, ci *ssa.Call, name string, args []SV) (SV, bool) {
	boolT := types.Typ[types.Bool]
	switch name {
	case "(*sync.Cond).Wait":
		// monitor reasoning (A14): the lock is released, so everything the monitor protects may change,
		// but every other critical section re-establishes the monitor invariant before releasing the lock.
		c := x.contractFor(fr.fn)
		if c == nil || len(c.waitinvs) == 0 {
			return SV{}, false
		}
		x.modelled["sync.Cond.Wait: releases and re-acquires the monitor lock atomically; the whole heap is havocked and the function's 'waitinv' monitor invariant is asserted before and assumed after (A14)"] = true
		mk := func() *Env {
			env := &Env{x: x, st: st, oldSt: st.entry, vars: map[string]SV{}, pkg: fr.fn.Pkg.Pkg}
			if fr.fn == x.target {
				for k, v := range st.lets {
					env.vars[k] = v
				}
			}
			env.lookup = x.localResolver(st, fr, fr.block)
			return env
		}
		env := mk()
		for i, inv := range c.waitinvs {
			t, err := env.EvalBool(inv.expr)
			if err != nil {
				panic(abortErr{fmt.Sprintf("%s:%d: waitinv %s: %v", inv.file, inv.line, inv.text, err)})
			}
			oname := fmt.Sprintf("wait-inv:%s:%s#%d", x.targetName(), relName(fr.fn), i+1)
			x.oblige(st, oname, "wait-inv", inv.text, ci.Pos(), t)
		}
		st.havocAll()
		env = mk()
		for _, inv := range c.waitinvs {
			t, err := env.EvalBool(inv.expr)
			if err != nil {
				panic(abortErr{err.Error()})
			}
			st.assume(t)
		}
		st.waitSt = nil
		st.waitSt = st.clone()
		return SV{ty: ci.Type()}, true
	case "time.Now":
		x.modelled["time.Now: fresh instant, recorded in ghost time.lastNow; monotone non-decreasing"] = true
		n := mkVar(freshName("now"), I64)
		old := st.load(x, x.lastNowPtr())
		st.assume(BvCmp("bvsle", old.t(), n))
		st.assume(BvCmp("bvsle", mkBV(0, 64), n))
		st.assume(BvCmp("bvsle", n, mkBV(1<<62, 64)))
		st.store(x, x.lastNowPtr(), scalarSV(types.Typ[types.Int64], n))
		return timeSV(ci.Type(), n), true
	case "(time.Time).Add":
		x.modelled["time.Time.Add: exact nanosecond addition (A8)"] = true
		return timeSV(ci.Type(), BvBin("bvadd", timeNanos(args[0]), args[1].t())), true
	case "(time.Time).Sub":
		x.modelled["time.Time.Sub: exact nanosecond difference (A8)"] = true
		return scalarSV(ci.Type(), BvBin("bvsub", timeNanos(args[0]), timeNanos(args[1]))), true
	case "(time.Time).Before":
		return scalarSV(boolT, BvCmp("bvslt", timeNanos(args[0]), timeNanos(args[1]))), true
	case "(time.Time).After":
		return scalarSV(boolT, BvCmp("bvslt", timeNanos(args[1]), timeNanos(args[0]))), true
	case "(time.Time).Equal":
		return scalarSV(boolT, Eq(timeNanos(args[0]), timeNanos(args[1]))), true
	case "(time.Time).Compare":
		a, b := timeNanos(args[0]), timeNanos(args[1])
		return scalarSV(ci.Type(), Ite(BvCmp("bvslt", a, b), mkBV(-1, 64), Ite(Eq(a, b), mkBV(0, 64), mkBV(1, 64)))), true
	case "(time.Time).IsZero":
		return scalarSV(boolT, And(Eq(timeWall(args[0]), mkBV(0, 64)), Eq(timeNanos(args[0]), mkBV(0, 64)))), true
	case "(time.Time).Unix":
		return scalarSV(ci.Type(), BvBin("bvsdiv", timeNanos(args[0]), mkBV(1000000000, 64))), true
	case "(time.Time).UnixNano":
		return scalarSV(ci.Type(), timeNanos(args[0])), true
	case "(time.Time).UTC", "(time.Time).Local", "(time.Time).Round", "(time.Time).In":
		if name == "(time.Time).Round" {
			return SV{}, false
		}
		return args[0], true
	case "(time.Time).Truncate":
		d := args[1].t()
		n := timeNanos(args[0])
		r := Ite(BvCmp("bvsle", d, mkBV(0, 64)), n, BvBin("bvsub", n, BvBin("bvsrem", n, d)))
		return timeSV(ci.Type(), r), true
	case "time.Unix":
		x.modelled["time.Unix: sec*1e9+nsec nanoseconds (A8)"] = true
		return timeSV(ci.Type(), BvBin("bvadd", BvBin("bvmul", args[0].t(), mkBV(1000000000, 64)), args[1].t())), true
	case "github.com/scionproto/scion/pkg/private/util.SecsToTime":
		return timeSV(ci.Type(), BvBin("bvmul", ZExt(args[0].t(), 64), mkBV(1000000000, 64))), true
	case "github.com/scionproto/scion/pkg/private/util.TimeToSecs":
		return scalarSV(ci.Type(), Extract(31, 0, BvBin("bvsdiv", timeNanos(args[0]), mkBV(1000000000, 64)))), true
	case "time.Since":
		n := mkVar(freshName("now"), I64)
		return scalarSV(ci.Type(), BvBin("bvsub", n, timeNanos(args[0]))), true
	case "time.Until":
		n := mkVar(freshName("now"), I64)
		return scalarSV(ci.Type(), BvBin("bvsub", timeNanos(args[0]), n)), true
	case "(time.Duration).Seconds", "(time.Duration).String":
		return SV{}, false
	case "math/rand/v2.IntN", "math/rand.Intn", "math/rand/v2.N":
		x.modelled["math/rand IntN(n): some value in [0, n)"] = true
		r := mkVar(freshName("rand"), I64)
		st.assume(BvCmp("bvsle", mkBV(0, 64), r))
		st.assume(BvCmp("bvslt", r, args[0].t()))
		return scalarSV(ci.Type(), r), true
	case "strconv.ParseUint":
		// deterministic function of its arguments; a successful parse fits the requested bit size
		x.modelled["strconv.ParseUint: uninterpreted function of (string, base, bitSize); err == nil implies value < 2^bitSize"] = true
		dv := declUF("lib.strconv.ParseUint.val", []*Sort{BV(32), I64, I64}, I64)
		de := declUF("lib.strconv.ParseUint.errtag", []*Sort{BV(32), I64, I64}, BV(32))
		dp := declUF("lib.strconv.ParseUint.errval", []*Sort{BV(32), I64, I64}, I64)
		a := []*Term{args[0].t(), args[1].t(), args[2].t()}
		val := App(dv, a...)
		tag, ev := App(de, a...), App(dp, a...)
		st.assume(Implies(Eq(tag, mkBV(0, 32)), Eq(ev, mkBV(0, 64))))
		bits := args[2].t()
		fits := Or(BvCmp("bvsle", bits, mkBV(0, 64)), BvCmp("bvsge", bits, mkBV(64, 64)),
			Eq(BvBin("bvlshr", val, bits), mkBV(0, 64)))
		st.assume(Implies(Eq(tag, mkBV(0, 32)), fits))
		tt := ci.Type().(*types.Tuple)
		r0 := scalarSV(tt.At(0).Type(), val)
		r1 := SV{ty: tt.At(1).Type(), l: []*Term{tag, ev}}
		return SV{ty: tt, l: []*Term{val, tag, ev}, tup: []SV{r0, r1}}, true
	case "crypto/subtle.ConstantTimeCompare":
		x.modelled["crypto/subtle.ConstantTimeCompare: 1 iff equal lengths and equal bytes"] = true
		return x.bytesEqual(st, fr, ci, args[0], args[1], true), true
	case "bytes.Equal":
		x.modelled["bytes.Equal: true iff equal lengths and equal bytes"] = true
		return x.bytesEqual(st, fr, ci, args[0], args[1], false), true
	}
	return SV{}, false
}

func (x *Exec) bytesEqual(st *State, fr *Frame, ci *ssa.Call, a, b SV, asInt bool) SV {
	var eq *Term
	la, lb := a.l[2], b.l[2]
	if la.isConst() && lb.isConst() && la.c.Int64() <= 64 {
		if la.c.Cmp(lb.c) != 0 {
			eq = False
		} else {
			var cs []*Term
			for i := int64(0); i < la.c.Int64(); i++ {
				cs = append(cs, Eq(x.sliceElem(st, a, mkBV(i, 64)).t(), x.sliceElem(st, b, mkBV(i, 64)).t()))
			}
			eq = And(cs...)
		}
	} else {
		j := mkBound(freshName("j"), I64)
		all := Forall([]*Term{j}, Implies(idxIn(j, la),
			Eq(x.sliceElem(st, a, j).t(), x.sliceElem(st, b, j).t())))
		eq = And(Eq(la, lb), all)
	}
	if asInt {
		return scalarSV(ci.Type(), Ite(eq, mkBV(1, 64), mkBV(0, 64)))
	}
	return scalarSV(ci.Type(), eq)
}
