package main

import (
	"go/types"

	"golang.org/x/tools/go/ssa"
)

type types_Package = types.Package

// modelCall gives built-in models for selected library functions.
func (x *Exec) modelCall(st *State, fr *Frame, ci *ssa.Call, name string, args []SV) (SV, bool) {
	switch name {
	}
	return SV{}, false
}
