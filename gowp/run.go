package main

import (
	"sort"
	"fmt"
	"go/token"
	"go/types"
	"strings"

	"golang.org/x/tools/go/ssa"
)

var nilRef = mkBV(0, 32)

func (x *Exec) endPath(st *State) {
	x.paths++
	if x.paths > x.maxPaths {
		panic(abortErr{fmt.Sprintf("path explosion (> %d paths)", x.maxPaths)})
	}
}

// run executes the state until its path ends; forks recurse.
func (x *Exec) run(st *State) {
	for {
		if st.infeasible() {
			x.endPath(st)
			return
		}
		fr := st.top()
		if fr.idx >= len(fr.block.Instrs) {
			panic(abortErr{"fell off block in " + fr.fn.String()})
		}
		ins := fr.block.Instrs[fr.idx]
		fr.idx++
		switch v := ins.(type) {
		case *ssa.DebugRef:
		case *ssa.Phi:
			// handled at block entry
		case *ssa.If:
			c := fr.get(x, v.Cond).t()
			k := st.known(c)
			if k == 1 || c == True {
				if !x.jump(st, fr, fr.block.Succs[0]) {
					return
				}
				continue
			}
			if k == -1 || c == False {
				if !x.jump(st, fr, fr.block.Succs[1]) {
					return
				}
				continue
			}
			st2 := st.clone()
			st2.assume(Not(c))
			fr2 := st2.top()
			if x.jump(st2, fr2, fr2.block.Succs[1]) {
				x.run(st2)
			}
			st.assume(c)
			if !x.jump(st, fr, fr.block.Succs[0]) {
				return
			}
		case *ssa.Jump:
			if !x.jump(st, fr, fr.block.Succs[0]) {
				return
			}
		case *ssa.Return:
			var results []SV
			for _, r := range v.Results {
				results = append(results, fr.get(x, r))
			}
			if st.disc != nil && len(st.stack) == st.disc.depth {
				x.endPath(st)
				return
			}
			if len(st.stack) == 1 {
				x.finish(st, fr, results, v.Pos())
				x.endPath(st)
				return
			}
			st.stack = st.stack[:len(st.stack)-1]
			caller := st.top()
			if fr.call != nil {
				if val := fr.call.Value(); val != nil {
					caller.vals[val] = packResults(val.Type(), results)
				}
			}
		case *ssa.Panic:
			x.handlePanic(st, fr, v)
			x.endPath(st)
			return
		case *ssa.RunDefers:
			x.runDefers(st, fr)
		case *ssa.Defer:
			var args []SV
			for _, a := range v.Call.Args {
				args = append(args, fr.get(x, a))
			}
			fr.defers = append(fr.defers, deferred{v, args})
		case *ssa.Go:
			x.note("goroutine creation ignored in %s", fr.fn)
		case *ssa.Send:
			ch := fr.get(x, v.Chan)
			if c := x.chanInv(ch); c != nil {
				env := &Env{x: x, st: st, vars: map[string]SV{"v": fr.get(x, v.X)}, pkg: fr.fn.Pkg.Pkg}
				t, err := env.EvalBool(c.expr)
				if err != nil {
					panic(abortErr{fmt.Sprintf("%s:%d: chan invariant: %v", c.file, c.line, err)})
				}
				_, txt := x.srcLine(v.Pos())
				x.oblige(st, fmt.Sprintf("chan:%s:%s:%s", x.targetName(), ch.chanKey, txt), "pre", "channel invariant "+c.text, v.Pos(), t)
			} else if x.tcontract == nil || len(x.tcontract.onSend) == 0 {
				x.note("channel send ignored in %s", fr.fn)
			}
			x.chanGhost(st, fr, false, fr.get(x, v.X), True, v.Pos())
		case *ssa.Store:
			addr := fr.get(x, v.Addr)
			val := fr.get(x, v.Val)
			x.nilCheck(st, fr, addr, v.Pos())
			if val.p != nil && len(val.p.steps) > 0 {
				if _, isSl := val.ty.Underlying().(*types.Slice); !isSl || !val.p.backing {
					x.note("interior pointer stored to memory in %s (aliasing lost)", fr.fn)
				}
			}
			st.store(x, addr, val)
		case *ssa.MapUpdate:
			m := fr.get(x, v.Map)
			x.safe(st, fr, "nilmap", v.Pos(), Neq(m.t(), nilRef))
			st.mapUpdate(x, m, fr.get(x, v.Key), fr.get(x, v.Value))
		case *ssa.Call:
			if !x.doCall(st, fr, v) {
				return
			}
		case ssa.Value:
			sv := x.evalValue(st, fr, v)
			if len(st.rewrites) > 0 {
				var nl []*Term
				for i, l := range sv.l {
					if c, ok := st.rewrites[l.id]; ok {
						if nl == nil {
							nl = append([]*Term{}, sv.l...)
						}
						nl[i] = c
					}
				}
				if nl != nil {
					sv.l = nl
				}
			}
			fr.vals[v] = sv
		default:
			panic(abortErr{fmt.Sprintf("unsupported instruction %T in %s", ins, fr.fn)})
		}
	}
}

func packResults(ty types.Type, results []SV) SV {
	if len(results) == 1 {
		return results[0]
	}
	var l []*Term
	for _, r := range results {
		l = append(l, r.l...)
	}
	return SV{ty: ty, l: l, tup: results}
}

func (x *Exec) nilCheck(st *State, fr *Frame, p SV, pos token.Pos) {
	if p.p != nil && (strings.HasPrefix(p.p.rootKey, "G:") || strings.HasPrefix(p.p.rootKey, "GH:")) {
		return
	}
	if p.p != nil && len(p.p.steps) > 0 {
		return // interior pointer: the base was checked when the path was built
	}
	b := p.l[0]
	if b.isConst() && b.c.Sign() != 0 {
		return
	}
	x.safe(st, fr, "nil", pos, Neq(b, nilRef))
}

func (x *Exec) handlePanic(st *State, fr *Frame, v *ssa.Panic) {
	if fr.fn == x.target && len(x.tcontract.panicsWhen) > 0 {
		vars := map[string]SV{}
		for _, p := range fr.fn.Params {
			vars[p.Name()] = st.entry.stack[0].vals[p]
		}
		env := &Env{x: x, st: st.entry, vars: vars, pkg: fr.fn.Pkg.Pkg}
		var cs []*Term
		for _, c := range x.tcontract.panicsWhen {
			t, err := env.EvalBool(c.expr)
			if err != nil {
				panic(abortErr{err.Error()})
			}
			cs = append(cs, t)
		}
		x.safe(st, fr, "panic", v.Pos(), Or(cs...))
		return
	}
	x.safe(st, fr, "panic", v.Pos(), False)
}

func (x *Exec) runDefers(st *State, fr *Frame) {
	for i := len(fr.defers) - 1; i >= 0; i-- {
		d := fr.defers[i]
		cc := d.call.Call
		name := ""
		if f := cc.StaticCallee(); f != nil {
			name = f.String()
		} else if cc.IsInvoke() {
			name = cc.Method.FullName()
		}
		if effectFree(name) {
			continue
		}
		x.note("deferred call %s in %s treated as havoc", name, fr.fn)
		st.havocAll()
	}
	fr.defers = nil
}

// jump moves to block `to`; returns false if the path ends here.
func (x *Exec) jump(st *State, fr *Frame, to *ssa.BasicBlock) bool {
	from := fr.block
	// discovery: leaving the loop ends the path
	if st.disc != nil && len(st.stack) == st.disc.depth {
		if !st.disc.blocks[to.Index] {
			x.endPath(st)
			return false
		}
	}
	li := loopAt(fr.fn, to)
	setPhis := func() {
		// parallel phi assignment for edge from->to
		ei := -1
		for i, p := range to.Preds {
			if p == from {
				ei = i
				break
			}
		}
		var phis []*ssa.Phi
		var vals []SV
		for _, ins := range to.Instrs {
			ph, ok := ins.(*ssa.Phi)
			if !ok {
				break
			}
			phis = append(phis, ph)
			vals = append(vals, fr.get(x, ph.Edges[ei]))
		}
		for i, ph := range phis {
			v := vals[i]
			v.ty = ph.Type()
			fr.vals[ph] = v
		}
	}
	enter := func() {
		fr.prev = from
		fr.block = to
		fr.idx = 0
	}
	if li == nil {
		setPhis()
		enter()
		return true
	}
	var lc *LoopContract
	if c := x.contractFor(fr.fn); c != nil {
		lc = c.loops[li.ordinal]
	}
	backEdge := li.blocks[from.Index] && to.Dominates(from)
	if lc == nil || len(lc.invariants) == 0 {
		// unroll mode
		if st.disc != nil && len(st.stack) == st.disc.depth && to.Index == st.disc.header && backEdge {
			x.endPath(st)
			return false
		}
		bound := 70
		if lc != nil && lc.unroll > 0 {
			bound = lc.unroll
		}
		if !backEdge {
			fr.visits[to.Index] = 0
		} else {
			fr.visits[to.Index]++
			if fr.visits[to.Index] > bound {
				name := fmt.Sprintf("unwind:%s:%s.loop%d", x.targetName(), relName(fr.fn), li.ordinal)
				x.oblige(st, name, "unwind", fmt.Sprintf("loop %d of %s needs more than %d iterations (no invariant given)", li.ordinal, fr.fn, bound), to.Instrs[0].Pos(), False)
				x.endPath(st)
				return false
			}
		}
		setPhis()
		enter()
		return true
	}
	// cut mode
	setPhis()
	env := &Env{x: x, st: st, oldSt: st.entry, vars: map[string]SV{}, pkg: fr.fn.Pkg.Pkg}
	if fr.fn == x.target {
		for k, v := range st.lets {
			env.vars[k] = v
		}
	}
	env.lookup = x.localResolver(st, fr, to)
	env.visited = x.visitedOf(fr, li)
	kind := "inv-init"
	if backEdge {
		kind = "inv-pres"
	}
	pos := to.Instrs[0].Pos()
	for i, inv := range lc.invariants {
		t, err := env.EvalBool(inv.expr)
		if err != nil {
			panic(abortErr{fmt.Sprintf("%s:%d: invariant %s: %v", inv.file, inv.line, inv.text, err)})
		}
		name := fmt.Sprintf("%s:%s:%s.loop%d#%d", kind, x.targetName(), relName(fr.fn), li.ordinal, i+1)
		x.oblige(st, name, kind, inv.text, pos, t)
		if o := x.obligs[name]; o != nil {
			o.clause = inv.text
		}
	}
	if backEdge {
		x.endPath(st)
		return false
	}
	// discovery of the loop's write set
	var writes map[string]bool
	rows := map[string]map[int]*Term{} // regions written only at loop-invariant base references
	rowWins := map[string]map[int][]win{} // ... and, for slice backings, only inside these windows
	all := false
	{
		d := st.clone()
		d.mute = true
		d.disc = &discoverCtx{depth: len(d.stack), header: to.Index, blocks: li.blocks, writes: map[string]bool{}, freshBase: *d.nfresh,
			bases: map[string]map[int]*Term{}, whole: map[string]bool{}, startID: termCount + 1}
		dfr := d.top()
		d.havocAll()
		d.disc.all = false
		x.havocPhis(d, dfr, to)
		dfr.prev = from
		dfr.block = to
		dfr.idx = 0
		savedPaths := x.paths
		x.run(d)
		x.paths = savedPaths
		writes = d.disc.writes
		all = d.disc.all
		memo := map[int]bool{}
		// a base reference read from the heap inside the loop (r.entries inside "for ... { r.entries[i] = x }")
		// is a term over the discovery run's havocked regions; the regions the loop does not write hold their
		// pre-loop contents, so such a base is rewritten over the pre-loop heap before it is judged
		back := map[int]*Term{}
		if !all {
			for key, srt := range regionSorts {
				if writes[key] {
					continue
				}
				from := mkVar(fmt.Sprintf("H%d_%s", d.epoch, regionName(key)), srt)
				back[from.id] = st.region(key, srt)
			}
		}
		smemo := map[int]*Term{}
		for k := range writes {
			if d.disc.whole[k] {
				continue
			}
			ok := true
			nb := map[int]*Term{}
			for oid, b := range d.disc.bases[k] {
				if !olderThan(b, d.disc.startID, memo) && len(back) > 0 {
					b = subst(b, back, smemo)
				}
				if !olderThan(b, d.disc.startID, memo) {
					ok = false
					break
				}
				nb[b.id] = b
				// windows of the slices through which this row was written
				if ws := d.disc.wins[k][oid]; len(ws) > 0 && len(ws) <= 4 && !d.disc.fullRow[k][oid] && st.disc == nil {
					var out []win
					good := true
					for _, w := range ws {
						lo, n := w.lo, w.n
						if len(back) > 0 {
							lo, n = subst(lo, back, smemo), subst(n, back, smemo)
						}
						if !olderThan(lo, d.disc.startID, memo) || !olderThan(n, d.disc.startID, memo) {
							good = false
							break
						}
						out = append(out, win{lo, n})
					}
					if good {
						if rowWins[k] == nil {
							rowWins[k] = map[int][]win{}
						}
						rowWins[k][b.id] = out
					}
				}
			}
			if ok && len(nb) > 0 && len(nb) <= 8 {
				rows[k] = nb
			}
		}
		if st.disc != nil {
			for k := range writes {
				st.disc.writes[k] = true
				if r, ok := rows[k]; ok {
					if st.disc.bases[k] == nil {
						st.disc.bases[k] = map[int]*Term{}
					}
					for id, b := range r {
						st.disc.bases[k][id] = b
					}
				} else {
					st.disc.whole[k] = true
				}
			}
			if all {
				st.disc.all = true
			}
		}
	}
	if all {
		st.havocAll()
	} else {
		for k := range writes {
			cur, ok := st.heap[k]
			var s *Sort
			if ok {
				s = cur.sort
			} else {
				s = x.sortOfRegion(k)
			}
			if s == nil {
				st.havocAll()
				break
			}
			if r, ok := rows[k]; ok && s.idx != nil {
				// only the rows of the objects the loop writes are unknown afterwards
				cur := st.region(k, s)
				ids := make([]int, 0, len(r))
				for id := range r {
					ids = append(ids, id)
				}
				sort.Ints(ids)
				for _, id := range ids {
					nw := mkVar(freshName("L_"+regionName(k)), s.elem)
					if ws := rowWins[k][id]; len(ws) > 0 && s.elem.idx == I64 {
						// cells outside the written slices' windows keep their contents
						j := mkBound(freshName("j"), I64)
						var outs []*Term
						for _, w := range ws {
							outs = append(outs, Or(BvCmp("bvslt", j, w.lo), BvCmp("bvsle", BvBin("bvadd", w.lo, w.n), j)))
						}
						old := Select(cur, r[id])
						st.assume(Forall([]*Term{j}, Implies(And(outs...), Eq(Select(nw, j), Select(old, j)))))
					}
					cur = Store(cur, r[id], nw)
				}
				st.setRegion(k, cur)
				continue
			}
			st.setRegion(k, mkVar(freshName("L_"+regionName(k)), s))
		}
	}
	x.havocPhis(st, fr, to)
	env.st = st
	env.lookup = x.localResolver(st, fr, to)
	for _, inv := range lc.invariants {
		t, err := env.EvalBool(inv.expr)
		if err != nil {
			panic(abortErr{err.Error()})
		}
		st.assume(t)
	}
	// a loop around sync.Cond.Wait: its head is where the critical section (re)starts, see atwait()
	for _, blk := range fr.fn.Blocks {
		if !li.blocks[blk.Index] {
			continue
		}
		for _, ins := range blk.Instrs {
			if c, ok := ins.(*ssa.Call); ok {
				if cal := c.Common().StaticCallee(); cal != nil && cal.String() == "(*sync.Cond).Wait" {
					st.waitSt = nil
					st.waitSt = st.clone()
				}
			}
		}
	}
	enter()
	return true
}

var regionSorts = map[string]*Sort{}

func (x *Exec) sortOfRegion(k string) *Sort { return regionSorts[k] }

func relName(fn *ssa.Function) string {
	if fn.Pkg != nil {
		return fn.RelString(fn.Pkg.Pkg)
	}
	return fn.String()
}

func (x *Exec) havocPhis(st *State, fr *Frame, b *ssa.BasicBlock) {
	for _, ins := range b.Instrs {
		ph, ok := ins.(*ssa.Phi)
		if !ok {
			break
		}
		hint := ph.Comment
		if hint == "" {
			hint = ph.Name()
		}
		v := freshSV(ph.Type(), "lp_"+hint)
		// keep pointer provenance if all edges agree (common: pointers not changed in loop)
		fr.vals[ph] = v
		x.wf(st, v)
	}
	// visited sets of map iterators advanced inside this loop
	if li := loopAt(fr.fn, b); li != nil {
		for _, blk := range fr.fn.Blocks {
			if !li.blocks[blk.Index] {
				continue
			}
			for _, ins := range blk.Instrs {
				if nx, ok := ins.(*ssa.Next); ok && !nx.IsString {
					if old := fr.iters[nx.Iter]; old != nil {
						fr.iters[nx.Iter] = mkVar(freshName("visited"), old.sort)
					}
				}
			}
		}
	}
}

// ---------- value instructions ----------

func (x *Exec) evalValue(st *State, fr *Frame, v ssa.Value) SV {
	switch n := v.(type) {
	case *ssa.Alloc:
		et := derefType(n.Type())
		if at, ok := et.Underlying().(*types.Array); ok && n.Comment == "slicelit" && at.Len() <= 64 {
			// the array behind a slice literal lives where slice backings live, so that the slice keeps
			// denoting it after it has been stored to and loaded from memory (a struct field, a parameter)
			ref := x.freshRef(st)
			info := &PtrInfo{rootKey: "[]" + typeKey(at.Elem()), rootTy: at.Elem(), backing: true}
			for i := int64(0); i < at.Len(); i++ {
				ep := SV{ty: types.NewPointer(at.Elem()), l: []*Term{ref},
					p: &PtrInfo{rootKey: info.rootKey, rootTy: info.rootTy, backing: true, steps: []Step{{field: -1, idx: mkBV(i, 64)}}}}
				st.store(x, ep, zeroSV(at.Elem()))
			}
			return SV{ty: n.Type(), l: []*Term{ref}, p: info}
		}
		ref := x.freshRef(st)
		p := SV{ty: n.Type(), l: []*Term{ref}}
		st.store(x, p, zeroSV(et))
		return p
	case *ssa.BinOp:
		return x.binop(st, fr, n)
	case *ssa.UnOp:
		a := fr.get(x, n.X)
		switch n.Op {
		case token.MUL:
			x.nilCheck(st, fr, a, n.Pos())
			r := st.load(x, a)
			r.ty = n.Type()
			return r
		case token.NOT:
			return scalarSV(n.Type(), Not(a.t()))
		case token.SUB:
			return scalarSV(n.Type(), BvNeg(a.t()))
		case token.XOR:
			return scalarSV(n.Type(), BvNot(a.t()))
		case token.ARROW:
			r := freshSV(n.Type(), "recv")
			x.wf(st, r)
			if !x.chanAssume(st, fr, a, r, n.CommaOk) && (x.tcontract == nil || len(x.tcontract.onRecv) == 0) {
				x.note("channel receive in %s yields an unconstrained value", fr.fn)
			}
			if n.CommaOk && len(r.tup) != 2 {
				r = x.splitTuple(n.Type(), r)
			}
			if n.CommaOk && len(r.tup) == 2 {
				x.chanGhost(st, fr, true, r.tup[0], r.tup[1].t(), n.Pos())
			} else if !n.CommaOk {
				x.chanGhost(st, fr, true, r, True, n.Pos())
			}
			return r
		}
	case *ssa.ChangeType:
		a := fr.get(x, n.X)
		return SV{ty: n.Type(), l: a.l, p: a.p}
	case *ssa.ChangeInterface:
		a := fr.get(x, n.X)
		return SV{ty: n.Type(), l: a.l}
	case *ssa.Convert:
		return x.convert(st, fr, n)
	case *ssa.MakeInterface:
		a := fr.get(x, n.X)
		return x.makeIface(st, n.Type(), a)
	case *ssa.TypeAssert:
		return x.typeAssert(st, fr, n)
	case *ssa.Extract:
		t := fr.get(x, n.Tuple)
		if t.tup != nil {
			r := t.tup[n.Index]
			return r
		}
		tt := n.Tuple.Type().(*types.Tuple)
		off := 0
		for i := 0; i < n.Index; i++ {
			off += len(leavesOf(tt.At(i).Type()))
		}
		ty := tt.At(n.Index).Type()
		return SV{ty: ty, l: t.l[off : off+len(leavesOf(ty))]}
	case *ssa.Field:
		a := fr.get(x, n.X)
		stt := a.ty.Underlying().(*types.Struct)
		s, e := fieldRange(stt, n.Field)
		return SV{ty: stt.Field(n.Field).Type(), l: a.l[s:e]}
	case *ssa.FieldAddr:
		a := fr.get(x, n.X)
		x.nilCheck(st, fr, a, n.Pos())
		r := fieldAddr(a, n.Field)
		r.ty = n.Type()
		return r
	case *ssa.Index:
		a := fr.get(x, n.X)
		idx := toI64(fr.get(x, n.Index))
		switch u := a.ty.Underlying().(type) {
		case *types.Array:
			x.safe(st, fr, "index", n.Pos(), idxIn(idx, mkBV(u.Len(), 64)))
			return arrayIndex(a, idx)
		case *types.Basic: // string
			x.safe(st, fr, "index", n.Pos(), idxIn(idx, strLen(a.t())))
			return scalarSV(n.Type(), mkVar(freshName("strbyte"), BV(8)))
		}
	case *ssa.IndexAddr:
		a := fr.get(x, n.X)
		idx := toI64(fr.get(x, n.Index))
		switch u := a.ty.Underlying().(type) {
		case *types.Slice:
			x.safe(st, fr, "index", n.Pos(), idxIn(idx, a.l[2]))
			r := sliceElemAddr(a, idx)
			r.ty = n.Type()
			return r
		case *types.Pointer:
			at := u.Elem().Underlying().(*types.Array)
			x.nilCheck(st, fr, a, n.Pos())
			x.safe(st, fr, "index", n.Pos(), idxIn(idx, mkBV(at.Len(), 64)))
			info := a.p
			if info == nil {
				info = &PtrInfo{rootKey: typeKey(u.Elem()), rootTy: u.Elem()}
			}
			ni := &PtrInfo{rootKey: info.rootKey, rootTy: info.rootTy, backing: info.backing,
				steps: append(append([]Step{}, info.steps...), Step{field: -1, idx: idx})}
			return SV{ty: n.Type(), l: a.l, p: ni}
		}
	case *ssa.Slice:
		return x.sliceOp(st, fr, n)
	case *ssa.Lookup:
		a := fr.get(x, n.X)
		if mt, ok := a.ty.Underlying().(*types.Map); ok {
			val, ok := st.mapLookup(x, a, fr.get(x, n.Index))
			_ = mt
			if n.CommaOk {
				okv := scalarSV(types.Typ[types.Bool], ok)
				return SV{ty: n.Type(), l: append(append([]*Term{}, val.l...), ok), tup: []SV{val, okv}}
			}
			return val
		}
		// string index
		idx := toI64(fr.get(x, n.Index))
		x.safe(st, fr, "index", n.Pos(), idxIn(idx, strLen(a.t())))
		return scalarSV(n.Type(), mkVar(freshName("strbyte"), BV(8)))
	case *ssa.MakeSlice:
		ln := toI64(fr.get(x, n.Len))
		cp := toI64(fr.get(x, n.Cap))
		x.safe(st, fr, "makeslice", n.Pos(), And(BvCmp("bvsle", mkBV(0, 64), ln), BvCmp("bvsle", ln, cp)))
		// allocation succeeded => size is sane (A6)
		st.assume(BvCmp("bvsle", cp, mkBVu(1<<40, 64)))
		ref := x.freshRef(st)
		et := elemType(n.Type())
		s := SV{ty: n.Type(), l: []*Term{ref, mkBV(0, 64), ln, cp}}
		for _, l := range leavesOf(et) {
			key := "[]" + typeKey(et) + "#" + l.path
			srt := ArrS(RefS, ArrS(I64, l.sort))
			r := st.region(key, srt)
			st.setRegion(key, Store(r, ref, ConstArr(ArrS(I64, l.sort), zeroTerm(l.sort))))
		}
		return s
	case *ssa.MakeMap:
		ref := x.freshRef(st)
		m := scalarSV(n.Type(), ref)
		st.mapInitEmpty(x, m)
		return m
	case *ssa.MakeChan:
		return scalarSV(n.Type(), x.freshRef(st))
	case *ssa.MakeClosure:
		// closure value: opaque, but remember bindings for direct calls
		ref := x.freshRef(st)
		sv := scalarSV(n.Type(), ref)
		var binds []SV
		for _, b := range n.Bindings {
			binds = append(binds, fr.get(x, b))
		}
		sv.clo = &closure{fn: n.Fn.(*ssa.Function), binds: binds}
		return sv
	case *ssa.Range:
		a := fr.get(x, n.X)
		if mt, ok := a.ty.Underlying().(*types.Map); ok {
			if fr.iters == nil {
				fr.iters = map[ssa.Value]*Term{}
			}
			fr.iters[n] = ConstArr(ArrS(keySort(mt.Key()), BoolS), False)
		}
		return SV{ty: n.Type(), l: a.l, rng: &a}
	case *ssa.Next:
		return x.next(st, fr, n)
	case *ssa.Select:
		x.note("select in %s modelled as nondeterministic choice with unconstrained received values", fr.fn)
		r := freshSV(n.Type(), "select")
		x.wf(st, r)
		// index in range
		nst := len(n.States)
		lo := -1
		if !n.Blocking {
			lo = -1
		} else {
			lo = 0
		}
		st.assume(BvCmp("bvsle", mkBV(int64(lo), 64), r.l[0]))
		st.assume(BvCmp("bvslt", r.l[0], mkBV(int64(nst), 64)))
		// channel invariants for the received values (tuple: index, recvOk, values of the recv states in order)
		tt := n.Type().(*types.Tuple)
		off := len(leavesOf(tt.At(0).Type())) + len(leavesOf(tt.At(1).Type()))
		k := 2
		for si, sst := range n.States {
			if sst.Dir != types.RecvOnly {
				x.chanGhost(st, fr, false, fr.get(x, sst.Send), Eq(r.l[0], mkBV(int64(si), 64)), n.Pos())
				continue
			}
			vt := tt.At(k).Type()
			nl := len(leavesOf(vt))
			val := SV{ty: vt, l: r.l[off : off+nl]}
			ch := fr.get(x, sst.Chan)
			if c := x.chanInv(ch); c != nil {
				env := &Env{x: x, st: st, vars: map[string]SV{"v": val}, pkg: fr.fn.Pkg.Pkg}
				t, err := env.EvalBool(c.expr)
				if err != nil {
					panic(abortErr{fmt.Sprintf("%s:%d: chan invariant: %v", c.file, c.line, err)})
				}
				// holds when this case fired and the channel was open
				st.assume(Implies(And(Eq(r.l[0], mkBV(int64(si), 64)), r.l[1]), t))
			}
			fired := Eq(r.l[0], mkBV(int64(si), 64))
			if selectUsesRecvOk(n) {
				fired = And(fired, r.l[1])
			} else if x.tcontract != nil && len(x.tcontract.onRecv) > 0 {
				// the program does not look at recvOk: like a plain receive, the channel is taken to be open
				x.havocked["channels received from without ok-check are not closed: "+x.targetName()] = true
			}
			x.chanGhost(st, fr, true, val, fired, n.Pos())
			off += nl
			k++
		}
		return r
	case *ssa.SliceToArrayPointer:
		a := fr.get(x, n.X)
		at := derefType(n.Type()).Underlying().(*types.Array)
		x.safe(st, fr, "slice2array", n.Pos(), BvCmp("bvsle", mkBV(at.Len(), 64), a.l[2]))
		x.note("slice-to-array-pointer conversion in %s: result treated as fresh copy", fr.fn)
		ref := x.freshRef(st)
		return SV{ty: n.Type(), l: []*Term{ref}}
	case *ssa.MultiConvert:
		a := fr.get(x, n.X)
		return SV{ty: n.Type(), l: a.l}
	}
	panic(abortErr{fmt.Sprintf("unsupported value instruction %T (%s) in %s", v, v, fr.fn)})
}

func (x *Exec) next(st *State, fr *Frame, n *ssa.Next) SV {
	it := fr.get(x, n.Iter)
	tt := n.Type().(*types.Tuple)
	okv := scalarSV(types.Typ[types.Bool], mkVar(freshName("next_ok"), BoolS))
	if n.IsString {
		k := freshSV(tt.At(1).Type(), "next_i")
		v := freshSV(tt.At(2).Type(), "next_r")
		return SV{ty: tt, l: append(append(append([]*Term{}, okv.l...), k.l...), v.l...), tup: []SV{okv, k, v}}
	}
	m := *it.rng
	mt := m.ty.Underlying().(*types.Map)
	k := freshSV(mt.Key(), "next_k")
	x.wf(st, k)
	val, in := st.mapLookup(x, m, k)
	st.assume(Implies(okv.t(), in))
	// every key is visited exactly once; when the iteration ends every key has been visited
	if vis := fr.iters[n.Iter]; vis != nil {
		ks := keySort(mt.Key())
		kt := keyTerm(k)
		st.assume(Implies(okv.t(), Not(Select(vis, kt))))
		j := mkBound(freshName("j"), ks)
		dom := Select(st.region("map:"+typeKey(mt)+"#dom", ArrS(RefS, ArrS(ks, BoolS))), m.t())
		st.assume(Implies(Not(okv.t()), Forall([]*Term{j}, Implies(And(Neq(m.t(), nilRef), Select(dom, j)), Select(vis, j)))))
		fr.iters[n.Iter] = Ite(okv.t(), Store(vis, kt, True), vis)
	}
	kk := k
	kk.ty = tt.At(1).Type()
	vv := val
	vv.ty = tt.At(2).Type()
	isInvalid := func(t types.Type) bool {
		b, ok := t.(*types.Basic)
		return ok && b.Kind() == types.Invalid
	}
	if isInvalid(kk.ty) { // blank identifier: invalid type
		kk = SV{ty: kk.ty}
	}
	if isInvalid(vv.ty) {
		vv = SV{ty: vv.ty}
	}
	return SV{ty: tt, tup: []SV{okv, kk, vv}, l: append(append(append([]*Term{}, okv.l...), kk.l...), vv.l...)}
}

func (x *Exec) makeIface(st *State, ity types.Type, a SV) SV {
	if _, ok := a.ty.Underlying().(*types.Interface); ok {
		return SV{ty: ity, l: a.l}
	}
	tag := x.typeTag(a.ty)
	var val *Term
	if a.p != nil && len(a.p.steps) > 0 && len(a.l) == 1 {
		// interior pointer boxed into an interface: keep its provenance in a side table, keyed by an
		// opaque payload
		val = mkVar(freshName("iptr"), I64)
		if x.iptr == nil {
			x.iptr = map[int]SV{}
		}
		x.iptr[val.id] = a
		st.assume(Neq(val, mkBV(0, 64)))
		return SV{ty: ity, l: []*Term{tag, val}}
	}
	if len(a.l) == 1 && a.l[0].sort.bv > 0 && a.l[0].sort.bv <= 64 {
		val = ZExt(a.l[0], 64)
	} else if len(a.l) == 1 && a.l[0].sort == BoolS {
		val = Ite(a.l[0], mkBV(1, 64), mkBV(0, 64))
	} else {
		// box
		ref := x.freshRef(st)
		p := SV{ty: types.NewPointer(a.ty), l: []*Term{ref}, p: &PtrInfo{rootKey: "box:" + typeKey(a.ty), rootTy: a.ty}}
		if len(a.l) > 0 {
			st.store(x, p, a)
		}
		val = ZExt(ref, 64)
	}
	return SV{ty: ity, l: []*Term{tag, val}}
}

func (x *Exec) unbox(st *State, ty types.Type, v SV) SV {
	if len(v.l) == 2 {
		if a, ok := x.iptr[v.l[1].id]; ok {
			a.ty = ty
			return a
		}
	}
	ls := leavesOf(ty)
	if len(ls) == 1 && ls[0].sort.bv > 0 && ls[0].sort.bv <= 64 {
		return scalarSV(ty, Extract(ls[0].sort.bv-1, 0, v.l[1]))
	}
	if len(ls) == 1 && ls[0].sort == BoolS {
		return scalarSV(ty, Neq(v.l[1], mkBV(0, 64)))
	}
	p := SV{ty: types.NewPointer(ty), l: []*Term{Extract(31, 0, v.l[1])}, p: &PtrInfo{rootKey: "box:" + typeKey(ty), rootTy: ty}}
	if len(ls) == 0 {
		return SV{ty: ty}
	}
	return st.load(x, p)
}

func (x *Exec) typeAssert(st *State, fr *Frame, n *ssa.TypeAssert) SV {
	a := fr.get(x, n.X)
	boolT := types.Typ[types.Bool]
	if _, isIface := n.AssertedType.Underlying().(*types.Interface); isIface {
		ok := mkVar(freshName("implements"), BoolS)
		okT := And(Neq(a.l[0], mkBV(0, 32)), ok)
		if !n.CommaOk {
			x.note("interface-to-interface assertion in %s assumed to succeed for non-nil values", fr.fn)
			x.safe(st, fr, "assert", n.Pos(), Neq(a.l[0], mkBV(0, 32)))
			return SV{ty: n.AssertedType, l: a.l}
		}
		val := iteSV(okT, SV{ty: n.AssertedType, l: a.l}, zeroSV(n.AssertedType))
		return SV{ty: n.Type(), l: append(append([]*Term{}, val.l...), okT), tup: []SV{val, scalarSV(boolT, okT)}}
	}
	ok := Eq(a.l[0], x.typeTag(n.AssertedType))
	val := x.unbox(st, n.AssertedType, a)
	if !n.CommaOk {
		x.safe(st, fr, "assert", n.Pos(), ok)
		return val
	}
	val = iteSV(ok, val, zeroSV(n.AssertedType))
	return SV{ty: n.Type(), l: append(append([]*Term{}, val.l...), ok), tup: []SV{val, scalarSV(boolT, ok)}}
}

func (x *Exec) convert(st *State, fr *Frame, n *ssa.Convert) SV {
	a := fr.get(x, n.X)
	from, to := a.ty.Underlying(), n.Type().Underlying()
	fb, fok := from.(*types.Basic)
	tb, tok := to.(*types.Basic)
	if fok && tok {
		if fb.Info()&types.IsInteger != 0 && tb.Info()&types.IsInteger != 0 {
			return convertInt(a, n.Type())
		}
		if fb.Info()&types.IsString != 0 && tb.Info()&types.IsString != 0 {
			return SV{ty: n.Type(), l: a.l}
		}
		if fb.Kind() == types.UnsafePointer || tb.Kind() == types.UnsafePointer {
			return SV{ty: n.Type(), l: []*Term{ZExt(a.l[0], scalarSort(n.Type()).bv)}}
		}
		x.note("conversion %s -> %s in %s yields an unconstrained value", typeKey(a.ty), typeKey(n.Type()), fr.fn)
		return freshSV(n.Type(), "conv")
	}
	if _, ok := to.(*types.Pointer); ok {
		return SV{ty: n.Type(), l: a.l, p: a.p}
	}
	if tok && tb.Kind() == types.UnsafePointer {
		return SV{ty: n.Type(), l: a.l[:1]}
	}
	// string <-> []byte etc.
	x.note("conversion %s -> %s in %s yields an unconstrained value", typeKey(a.ty), typeKey(n.Type()), fr.fn)
	r := freshSV(n.Type(), "conv")
	x.wf(st, r)
	if _, ok := to.(*types.Slice); ok && fok && fb.Info()&types.IsString != 0 {
		st.assume(Eq(r.l[2], strLen(a.t())))
		r.l[0] = x.freshRef(st)
	}
	if tok && tb.Info()&types.IsString != 0 {
		if _, ok := from.(*types.Slice); ok {
			st.assume(Eq(strLen(r.t()), a.l[2]))
		}
	}
	return r
}

func (x *Exec) sliceOp(st *State, fr *Frame, n *ssa.Slice) SV {
	a := fr.get(x, n.X)
	zero := mkBV(0, 64)
	var lo, hi, mx *Term
	if n.Low != nil {
		lo = toI64(fr.get(x, n.Low))
	} else {
		lo = zero
	}
	switch u := a.ty.Underlying().(type) {
	case *types.Slice:
		if n.High != nil {
			hi = toI64(fr.get(x, n.High))
		} else {
			hi = a.l[2]
		}
		if n.Max != nil {
			mx = toI64(fr.get(x, n.Max))
		} else {
			mx = a.l[3]
		}
		x.safe(st, fr, "slice", n.Pos(), And(lenLe(lo, hi), BvCmp("bvsle", hi, mx), BvCmp("bvsle", mx, a.l[3])))
		return SV{ty: n.Type(), l: []*Term{a.l[0], BvBin("bvadd", a.l[1], lo), BvBin("bvsub", hi, lo), BvBin("bvsub", mx, lo)}, p: a.p}
	case *types.Basic: // string
		ln := strLen(a.t())
		if n.High != nil {
			hi = toI64(fr.get(x, n.High))
		} else {
			hi = ln
		}
		x.safe(st, fr, "slice", n.Pos(), And(lenLe(lo, hi), BvCmp("bvsle", hi, ln)))
		r := freshSV(n.Type(), "substr")
		st.assume(Eq(strLen(r.t()), BvBin("bvsub", hi, lo)))
		return r
	case *types.Pointer:
		at := u.Elem().Underlying().(*types.Array)
		x.nilCheck(st, fr, a, n.Pos())
		al := mkBV(at.Len(), 64)
		if n.High != nil {
			hi = toI64(fr.get(x, n.High))
		} else {
			hi = al
		}
		if n.Max != nil {
			mx = toI64(fr.get(x, n.Max))
		} else {
			mx = al
		}
		x.safe(st, fr, "slice", n.Pos(), And(lenLe(lo, hi), BvCmp("bvsle", hi, mx), BvCmp("bvsle", mx, al)))
		info := a.p
		if info == nil {
			info = &PtrInfo{rootKey: typeKey(u.Elem()), rootTy: u.Elem()}
		}
		if info.backing && len(info.steps) == 0 && strings.HasPrefix(info.rootKey, "[]") {
			// array of a slice literal (see Alloc): an ordinary slice over its backing
			return SV{ty: n.Type(), l: []*Term{a.l[0], lo, BvBin("bvsub", hi, lo), BvBin("bvsub", mx, lo)}}
		}
		return SV{ty: n.Type(), l: []*Term{a.l[0], lo, BvBin("bvsub", hi, lo), BvBin("bvsub", mx, lo)},
			p: &PtrInfo{rootKey: info.rootKey, rootTy: info.rootTy, backing: info.backing, steps: info.steps}}
	}
	panic(abortErr{"unsupported slice operand " + typeKey(a.ty)})
}

func (x *Exec) binop(st *State, fr *Frame, n *ssa.BinOp) SV {
	a := fr.get(x, n.X)
	b := fr.get(x, n.Y)
	boolT := n.Type()
	switch n.Op {
	case token.EQL, token.NEQ:
		var t *Term
		if _, ok := a.ty.Underlying().(*types.Interface); ok {
			if _, ok2 := b.ty.Underlying().(*types.Interface); !ok2 {
				b = x.makeIface(st, a.ty, b)
			}
		} else if _, ok := b.ty.Underlying().(*types.Interface); ok {
			a = x.makeIface(st, b.ty, a)
		}
		if len(a.l) != len(b.l) {
			panic(abortErr{fmt.Sprintf("comparison shape mismatch %s vs %s in %s", typeKey(a.ty), typeKey(b.ty), fr.fn)})
		}
		t = eqSV(a, b)
		if n.Op == token.NEQ {
			t = Not(t)
		}
		return scalarSV(boolT, t)
	}
	if bt, ok := a.ty.Underlying().(*types.Basic); ok && bt.Info()&types.IsString != 0 {
		switch n.Op {
		case token.ADD:
			r := freshSV(n.Type(), "strcat")
			st.assume(Eq(strLen(r.t()), BvBin("bvadd", strLen(a.t()), strLen(b.t()))))
			return r
		default:
			return scalarSV(n.Type(), mkVar(freshName("strcmp"), BoolS))
		}
	}
	if bt, ok := a.ty.Underlying().(*types.Basic); ok && bt.Info()&(types.IsFloat|types.IsComplex) != 0 {
		x.note("floating-point arithmetic in %s yields unconstrained values", fr.fn)
		return freshSV(n.Type(), "float")
	}
	at, bt := a.t(), b.t()
	sg := isSigned(a.ty)
	cmp := func(u, s string) SV {
		if sg {
			return scalarSV(boolT, BvCmp(s, at, bt))
		}
		return scalarSV(boolT, BvCmp(u, at, bt))
	}
	switch n.Op {
	case token.LSS:
		return cmp("bvult", "bvslt")
	case token.LEQ:
		return cmp("bvule", "bvsle")
	case token.GTR:
		return cmp("bvugt", "bvsgt")
	case token.GEQ:
		return cmp("bvuge", "bvsge")
	case token.SHL, token.SHR:
		if isSigned(b.ty) {
			x.safe(st, fr, "shift", n.Pos(), BvCmp("bvsle", mkBV(0, bt.sort.bv), bt))
		}
		return scalarSV(n.Type(), shiftTerm(n.Op == token.SHL, a, b))
	case token.LAND, token.LOR:
		if n.Op == token.LAND {
			return scalarSV(n.Type(), And(at, bt))
		}
		return scalarSV(n.Type(), Or(at, bt))
	}
	if at.sort == BoolS {
		switch n.Op {
		case token.AND:
			return scalarSV(n.Type(), And(at, bt))
		case token.OR:
			return scalarSV(n.Type(), Or(at, bt))
		}
	}
	var op string
	switch n.Op {
	case token.ADD:
		op = "bvadd"
	case token.SUB:
		op = "bvsub"
	case token.MUL:
		op = "bvmul"
	case token.QUO:
		x.safe(st, fr, "div", n.Pos(), Neq(bt, mkBV(0, bt.sort.bv)))
		op = "bvudiv"
		if sg {
			op = "bvsdiv"
		}
	case token.REM:
		x.safe(st, fr, "div", n.Pos(), Neq(bt, mkBV(0, bt.sort.bv)))
		op = "bvurem"
		if sg {
			op = "bvsrem"
		}
	case token.AND:
		op = "bvand"
	case token.OR:
		op = "bvor"
	case token.XOR:
		op = "bvxor"
	case token.AND_NOT:
		return scalarSV(n.Type(), BvBin("bvand", at, BvNot(bt)))
	default:
		panic(abortErr{"unsupported binop " + n.Op.String()})
	}
	return scalarSV(n.Type(), BvBin(op, at, bt))
}

func selectUsesRecvOk(n *ssa.Select) bool {
	if n.Referrers() == nil {
		return false
	}
	for _, r := range *n.Referrers() {
		if e, ok := r.(*ssa.Extract); ok && e.Index == 1 && e.Referrers() != nil && len(*e.Referrers()) > 0 {
			return true
		}
	}
	return false
}

// chanGhost applies the onrecv / onsend clauses of the function under contract at a channel operation:
// v is the value transferred, ok the condition under which the transfer happened.
func (x *Exec) chanGhost(st *State, fr *Frame, recv bool, v SV, ok *Term, pos token.Pos) {
	if x.tcontract == nil {
		return
	}
	cl := x.tcontract.onSend
	what := "onsend"
	if recv {
		cl = x.tcontract.onRecv
		what = "onrecv"
	}
	if len(cl) == 0 || len(v.l) == 0 {
		return // no clauses, or a signalling channel (struct{}): nothing is transferred
	}
	okv := scalarSV(types.Typ[types.Bool], ok)
	mkEnv := func() *Env {
		env := &Env{x: x, st: st, vars: map[string]SV{"v": v, "ok": okv}, pkg: fr.fn.Pkg.Pkg}
		if fr.fn == x.target {
			for k, lv := range st.lets {
				env.vars[k] = lv
			}
		}
		return env
	}
	_, txt := x.srcLine(pos)
	nreq := 0
	for _, c := range cl {
		func() {
			defer func() {
				if r := recover(); r != nil {
					if ee, isEval := r.(evalErr); isEval {
						panic(abortErr{fmt.Sprintf("%s:%d: %s %s: %s", c.file, c.line, what, c.text, ee.msg)})
					}
					panic(r)
				}
			}()
			env := mkEnv()
			switch c.kind {
			case "assume":
				t, err := env.EvalBool(c.expr)
				if err != nil {
					panic(abortErr{fmt.Sprintf("%s:%d: %s assume: %v", c.file, c.line, what, err)})
				}
				x.havocked["assumed at channel receive ("+c.text+") in "+x.targetName()] = true
				st.assume(Implies(ok, t))
			case "requires":
				t, err := env.EvalBool(c.expr)
				if err != nil {
					panic(abortErr{fmt.Sprintf("%s:%d: %s requires: %v", c.file, c.line, what, err)})
				}
				nreq++
				x.oblige(st, fmt.Sprintf("chan-send:%s#%d:%s", x.targetName(), nreq, txt), "pre", "at channel send: "+c.text, pos, Implies(ok, t))
				st.assume(Implies(ok, t))
			case "gset":
				mls := x.modLocs(env, c.exprs[0])
				target := mls[0].ptr
				nv := env.eval(c.expr, derefType(target.ty))
				old := st.load(x, target)
				if ok != True && len(old.l) == len(nv.l) {
					ls := make([]*Term, len(nv.l))
					for i := range nv.l {
						ls[i] = Ite(ok, nv.l[i], old.l[i])
					}
					nv = SV{ty: nv.ty, l: ls}
				}
				st.store(x, target, nv)
			}
		}()
	}
}

// chanInv finds the declared invariant of a channel value (by the struct field it was loaded from).
func (x *Exec) chanInv(ch SV) *Clause {
	if ch.chanKey == "" {
		return nil
	}
	for _, pc := range x.contracts {
		for k, c := range pc.chans {
			// k = pkgpath.Type.field ; chanKey = pkgpath.Type + ".field"
			if k == ch.chanKey {
				return c
			}
		}
	}
	return nil
}

func (x *Exec) chanAssume(st *State, fr *Frame, ch SV, val SV, commaOk bool) bool {
	c := x.chanInv(ch)
	if c == nil {
		return false
	}
	v := val
	var okT *Term = True
	if commaOk && len(val.tup) == 2 {
		v = val.tup[0]
		okT = val.tup[1].t()
	} else if commaOk {
		return false
	}
	env := &Env{x: x, st: st, vars: map[string]SV{"v": v}, pkg: fr.fn.Pkg.Pkg}
	t, err := env.EvalBool(c.expr)
	if err != nil {
		panic(abortErr{fmt.Sprintf("%s:%d: chan invariant: %v", c.file, c.line, err)})
	}
	st.assume(Implies(okT, t))
	return true
}

// visitedOf returns an accessor for the visited-key set of the map iterator advanced in loop li.
func (x *Exec) visitedOf(fr *Frame, li *loopInfo) func() (*Term, types.Type) {
	return func() (*Term, types.Type) {
		for _, blk := range fr.fn.Blocks {
			if !li.blocks[blk.Index] {
				continue
			}
			for _, ins := range blk.Instrs {
				if nx, ok := ins.(*ssa.Next); ok && !nx.IsString {
					if vis := fr.iters[nx.Iter]; vis != nil {
						rg := nx.Iter.(*ssa.Range)
						return vis, rg.X.Type().Underlying().(*types.Map).Key()
					}
				}
			}
		}
		return nil, nil
	}
}
