package main

// Contract files: comment-only Go files (build tag verif) whose //@ lines carry
// contracts keyed by function name and loop ordinal.

import (
	"fmt"
	"go/ast"
	"go/parser"
	"go/token"
	"regexp"
	"strconv"
	"strings"
)

type Clause struct {
	kind string // requires, ensures, modifies, invariant, decreases, let, assert
	text string
	expr ast.Expr   // parsed (after ==> rewriting)
	exprs []ast.Expr // for modifies
	name string     // for let
	line int
	file string
}

type LoopContract struct {
	invariants []*Clause
	unroll     int
	decreases  *Clause
	modAll     bool
}

type FuncContract struct {
	pkg      string // package path
	name     string // RelString form, e.g. (*Base).IncPath
	props    []string
	requires []*Clause
	ensures  []*Clause
	lets     []*Clause
	gsets    []*Clause // ghost updates applied at exit: lhs := rhs
	modifies []*Clause // nil => unspecified (callers havoc everything)
	hasMod   bool
	pure     bool // modifies nothing
	inline   bool
	trusted  bool
	opaque   []string // callees to treat as opaque (havoc) in this function
	onRecv   []*Clause // ghost effect of every channel receive in this function (v = value, ok = a value was received)
	onSend   []*Clause // obligations and ghost effect of every channel send (v = value, ok = the send happened)
	noSafety bool // run-time safety of this function is not checked: obligations hold for executions without panic
	callPres map[string][]*Clause // assertions at calls to a callee, stated by the caller (a0.. = actual arguments)
	callMods map[string]*Clause // assumed frames of uninterpreted callees, stated at the caller
	inlines  []string // callees to force-inline in this function
	loops    map[int]*LoopContract
	panicsWhen []*Clause
	noverify bool
	file     string
	line     int
	isIface  bool
	isExtern bool
	frameOnly []string // callees of which only requires and modifies are used (their ensures are not assumed)
	pureDyn  bool // calls through function-typed values (configuration callbacks) are assumed effect-free
	fresh    bool // result is a freshly allocated object
	depth    int  // inline depth override
	maxPaths int
	reveals  []string
	splits   []*Clause // case splits at entry: expr over the listed constant values (exprs)
	waitinvs []*Clause // monitor invariant: asserted before, assumed after every sync.Cond.Wait in this function
}

type SpecFunc struct {
	pkg    string
	name   string
	params []*ast.Field
	result ast.Expr
	body   ast.Expr // nil => uninterpreted
	text   string
	file   string
	line   int
	decl   *UFDecl
	ptypes []typesT
	rtype  typesT
	rec    bool
	opaque bool // uninterpreted unless a function contract says 'reveal name'
	multi  []*UFDecl // one declaration per result leaf (uninterpreted functions with a structured result)
}

type Lemma struct {
	pkg   string
	name  string
	props []string
	expr  ast.Expr
	text  string
	file  string
	line  int
}

type GhostVar struct {
	pkg  string
	name string
	typ  ast.Expr
}

type PkgContracts struct {
	pkg    string
	funcs  map[string]*FuncContract
	ifaces map[string]*FuncContract // "Iface.Method"
	specs  []*SpecFunc
	lemmas []*Lemma
	ghosts []*GhostVar
	imports map[string]string // alias -> path (declared with //@ import)
	macros  map[string]*Macro
	chans   map[string]*Clause // "pkgpath.Type.field" -> invariant over v
	externs map[string]*FuncContract // callee.String() -> assumed contract
}

var implRe = regexp.MustCompile(`==>`)

// rewriteImplies turns `a ==> b` (lowest precedence, right assoc) into implies_(a, b) textually,
// respecting parentheses/brackets nesting, and `forall x T :: e` into forall_(func(x T) bool { return e }).
func rewriteSpecExpr(s string) string {
	s = strings.TrimSpace(s)
	// quantifiers at this level
	for _, q := range []string{"forall", "exists"} {
		if strings.HasPrefix(s, q+" ") {
			i := strings.Index(s, "::")
			if i > 0 {
				decl := strings.TrimSpace(s[len(q):i])
				body := rewriteSpecExpr(s[i+2:])
				return q + "_(func(" + decl + ") bool { return " + body + " })"
			}
		}
	}
	// scan for the first top-level ==> or quantifier (a quantifier extends to the end of the expression)
	depth := 0
	for i := 0; i < len(s); i++ {
		switch s[i] {
		case '(', '[', '{':
			depth++
		case ')', ']', '}':
			depth--
		case '"':
			for i++; i < len(s) && s[i] != '"'; i++ {
				if s[i] == '\\' {
					i++
				}
			}
		case '=':
			if depth == 0 && strings.HasPrefix(s[i:], "==>") {
				return "implies_(" + rewriteInner(s[:i]) + ", " + rewriteSpecExpr(s[i+3:]) + ")"
			}
		case 'f', 'e':
			if depth == 0 && i > 0 && (strings.HasPrefix(s[i:], "forall ") || strings.HasPrefix(s[i:], "exists ")) &&
				(s[i-1] == ' ' || s[i-1] == '&' || s[i-1] == '|' || s[i-1] == '!') {
				return rewriteInner(s[:i]) + rewriteSpecExpr(s[i:])
			}
		}
	}
	return rewriteInner(s)
}

// rewriteInner handles nested parenthesised sub-expressions that contain ==> or quantifiers.
func rewriteInner(s string) string {
	var sb strings.Builder
	for i := 0; i < len(s); i++ {
		if s[i] == '"' {
			j := i + 1
			for ; j < len(s) && s[j] != '"'; j++ {
				if s[j] == '\\' {
					j++
				}
			}
			sb.WriteString(s[i:min(j+1, len(s))])
			i = j
			continue
		}
		if s[i] == '(' {
			// find matching
			d := 0
			j := i
			for ; j < len(s); j++ {
				if s[j] == '(' {
					d++
				} else if s[j] == ')' {
					d--
					if d == 0 {
						break
					}
				}
			}
			if j >= len(s) {
				sb.WriteString(s[i:])
				return sb.String()
			}
			inner := s[i+1 : j]
			if strings.Contains(inner, "==>") || strings.Contains(inner, "forall ") || strings.Contains(inner, "exists ") {
				// may be an argument list: split on top-level commas
				parts := splitTop(inner, ',')
				for k, p := range parts {
					parts[k] = rewriteSpecExpr(p)
				}
				sb.WriteString("(" + strings.Join(parts, ", ") + ")")
			} else {
				sb.WriteString("(" + inner + ")")
			}
			i = j
			continue
		}
		sb.WriteByte(s[i])
	}
	return sb.String()
}

func splitTop(s string, sep byte) []string {
	var out []string
	d := 0
	last := 0
	for i := 0; i < len(s); i++ {
		switch s[i] {
		case '(', '[', '{':
			d++
		case ')', ']', '}':
			d--
		case '"':
			for i++; i < len(s) && s[i] != '"'; i++ {
				if s[i] == '\\' {
					i++
				}
			}
		default:
			if s[i] == sep && d == 0 {
				out = append(out, s[last:i])
				last = i + 1
			}
		}
	}
	out = append(out, s[last:])
	return out
}

func parseSpecExpr(text string) (ast.Expr, error) {
	r := rewriteSpecExpr(text)
	e, err := parser.ParseExpr(r)
	if err != nil {
		return nil, fmt.Errorf("cannot parse %q (rewritten %q): %v", text, r, err)
	}
	return e, nil
}

var kwRe = regexp.MustCompile(`^(callpre|onrecv|onsend|nosafety|callmod|frameonly|puredyn|extern|macro|chan|gset|func|iface|spec|lemma|ghost|import|requires|ensures|modifies|inline|trusted|noverify|pure|fresh|loop|let|props|opaque|inlines|panics_when|depth|maxpaths|reveal|split|waitinv)\b`)

// ParseContractFile extracts contracts from the //@ lines of a file.
func ParseContractFile(pkgPath, file string, src []byte, pc *PkgContracts) error {
	lines := strings.Split(string(src), "\n")
	type item struct {
		text string
		line int
	}
	var items []item
	for i, l := range lines {
		t := strings.TrimSpace(l)
		if !strings.HasPrefix(t, "//@") {
			continue
		}
		body := strings.TrimSpace(t[3:])
		if body == "" || strings.HasPrefix(body, "#") {
			continue
		}
		if kwRe.MatchString(body) || len(items) == 0 {
			items = append(items, item{body, i + 1})
		} else {
			items[len(items)-1].text += " " + body
		}
	}
	var cur *FuncContract
	for _, it := range items {
		kw := kwRe.FindString(it.text)
		if kw != "macro" {
			it.text = expandMacros(it.text, pc.macros)
		}
		rest := strings.TrimSpace(it.text[len(kw):])
		mk := func(kind, text string) (*Clause, error) {
			e, err := parseSpecExpr(text)
			if err != nil {
				return nil, fmt.Errorf("%s:%d: %v", file, it.line, err)
			}
			return &Clause{kind: kind, text: text, expr: e, line: it.line, file: file}, nil
		}
		switch kw {
		case "macro":
			// macro name(a, b) = text
			m := macroRe.FindStringSubmatch(rest)
			if m == nil {
				return fmt.Errorf("%s:%d: bad macro", file, it.line)
			}
			var ps []string
			for _, p := range strings.Split(m[2], ",") {
				if p = strings.TrimSpace(p); p != "" {
					ps = append(ps, p)
				}
			}
			pc.macros[m[1]] = &Macro{params: ps, body: expandMacros(strings.TrimSpace(m[3]), pc.macros)}
		case "chan":
			// chan Type.field invariant <expr over v>
			f := strings.SplitN(rest, " ", 3)
			if len(f) != 3 || f[1] != "invariant" {
				return fmt.Errorf("%s:%d: chan Type.field invariant expr", file, it.line)
			}
			c, err := mk("chaninv", f[2])
			if err != nil {
				return err
			}
			pc.chans[pkgPath+"."+f[0]] = c
			cur = nil
		case "import":
			f := strings.Fields(rest)
			if len(f) == 2 {
				pc.imports[f[0]] = strings.Trim(f[1], `"`)
			} else if len(f) == 1 {
				p := strings.Trim(f[0], `"`)
				pc.imports[p[strings.LastIndex(p, "/")+1:]] = p
			}
		case "extern":
			// extern <callee as printed by go/ssa, e.g. net.ParseIP or (net.IP).Equal>: assumed contract for a
			// function outside the repository (always trusted, listed in the evidence)
			cur = &FuncContract{pkg: pkgPath, name: rest, loops: map[int]*LoopContract{}, file: file, line: it.line, trusted: true, isExtern: true}
			if pc.externs == nil {
				pc.externs = map[string]*FuncContract{}
			}
			pc.externs[rest] = cur
		case "func", "iface":
			cur = &FuncContract{pkg: pkgPath, name: rest, loops: map[int]*LoopContract{}, file: file, line: it.line, isIface: kw == "iface"}
			if kw == "iface" {
				pc.ifaces[rest] = cur
			} else {
				if pc.funcs[rest] != nil {
					return fmt.Errorf("%s:%d: duplicate contract for %s", file, it.line, rest)
				}
				pc.funcs[rest] = cur
			}
		case "spec":
			// spec func name(params) R = expr | uninterpreted
			if !strings.HasPrefix(rest, "func ") {
				return fmt.Errorf("%s:%d: bad spec", file, it.line)
			}
			rest = strings.TrimSpace(rest[5:])
			sf := &SpecFunc{pkg: pkgPath, file: file, line: it.line, text: rest}
			var sig, body string
			if i := indexTopEq(rest); i >= 0 {
				sig, body = strings.TrimSpace(rest[:i]), strings.TrimSpace(rest[i+1:])
			} else if strings.HasSuffix(rest, "uninterpreted") {
				sig = strings.TrimSpace(strings.TrimSuffix(rest, "uninterpreted"))
			} else {
				return fmt.Errorf("%s:%d: spec func needs '= expr' or 'uninterpreted'", file, it.line)
			}
			if strings.HasPrefix(body, "rec ") {
				sf.rec = true
				body = body[4:]
			}
			if strings.HasPrefix(body, "opaque ") {
				sf.opaque = true
				body = body[7:]
			}
			f, err := parser.ParseFile(token.NewFileSet(), "", "package p\nfunc "+sig+" {}", 0)
			if err != nil {
				return fmt.Errorf("%s:%d: bad spec signature %q: %v", file, it.line, sig, err)
			}
			fd := f.Decls[0].(*ast.FuncDecl)
			sf.name = fd.Name.Name
			sf.params = fd.Type.Params.List
			if fd.Type.Results == nil || len(fd.Type.Results.List) != 1 {
				return fmt.Errorf("%s:%d: spec func needs one result", file, it.line)
			}
			sf.result = fd.Type.Results.List[0].Type
			if body != "" {
				e, err := parseSpecExpr(body)
				if err != nil {
					return fmt.Errorf("%s:%d: %v", file, it.line, err)
				}
				sf.body = e
			}
			pc.specs = append(pc.specs, sf)
			cur = nil
		case "lemma":
			i := strings.Index(rest, ":")
			if i < 0 {
				return fmt.Errorf("%s:%d: lemma needs name:", file, it.line)
			}
			hdr := strings.Fields(rest[:i])
			lm := &Lemma{pkg: pkgPath, name: hdr[0], file: file, line: it.line, text: strings.TrimSpace(rest[i+1:])}
			for _, h := range hdr[1:] {
				lm.props = append(lm.props, strings.Trim(h, "[],"))
			}
			e, err := parseSpecExpr(lm.text)
			if err != nil {
				return fmt.Errorf("%s:%d: %v", file, it.line, err)
			}
			lm.expr = e
			pc.lemmas = append(pc.lemmas, lm)
			cur = nil
		case "ghost":
			f := strings.Fields(rest)
			if len(f) < 3 || f[0] != "var" {
				return fmt.Errorf("%s:%d: ghost var name type", file, it.line)
			}
			te, err := parser.ParseExpr(strings.Join(f[2:], " "))
			if err != nil {
				return fmt.Errorf("%s:%d: %v", file, it.line, err)
			}
			pc.ghosts = append(pc.ghosts, &GhostVar{pkg: pkgPath, name: f[1], typ: te})
			cur = nil
		default:
			if cur == nil {
				return fmt.Errorf("%s:%d: clause %q outside func", file, it.line, kw)
			}
			switch kw {
			case "requires", "ensures", "panics_when", "waitinv":
				c, err := mk(kw, rest)
				if err != nil {
					return err
				}
				switch kw {
				case "waitinv":
					cur.waitinvs = append(cur.waitinvs, c)
				case "requires":
					cur.requires = append(cur.requires, c)
				case "ensures":
					cur.ensures = append(cur.ensures, c)
				default:
					cur.panicsWhen = append(cur.panicsWhen, c)
				}
			case "gset":
				i := strings.Index(rest, ":=")
				if i < 0 {
					return fmt.Errorf("%s:%d: gset lhs := rhs", file, it.line)
				}
				c, err := mk("gset", strings.TrimSpace(rest[i+2:]))
				if err != nil {
					return err
				}
				lhs, err := parser.ParseExpr(strings.TrimSpace(rest[:i]))
				if err != nil {
					return fmt.Errorf("%s:%d: %v", file, it.line, err)
				}
				c.exprs = []ast.Expr{lhs}
				cur.gsets = append(cur.gsets, c)
				cur.hasMod = cur.hasMod || false
			case "let":
				i := strings.Index(rest, "=")
				if i < 0 {
					return fmt.Errorf("%s:%d: let name = expr", file, it.line)
				}
				c, err := mk("let", strings.TrimSpace(rest[i+1:]))
				if err != nil {
					return err
				}
				c.name = strings.TrimSpace(rest[:i])
				cur.lets = append(cur.lets, c)
			case "modifies":
				cur.hasMod = true
				if rest == "nothing" {
					cur.pure = true
					break
				}
				c := &Clause{kind: "modifies", text: rest, line: it.line, file: file}
				if i := strings.Index(rest, " if "); i > 0 {
					// modifies <designators> if <condition over the pre-state>
					ce, err := parseSpecExpr(strings.TrimSpace(rest[i+4:]))
					if err != nil {
						return fmt.Errorf("%s:%d: %v", file, it.line, err)
					}
					c.expr = ce
					rest = strings.TrimSpace(rest[:i])
				}
				for _, p := range splitTop(rest, ',') {
					e, err := parser.ParseExpr(strings.TrimSpace(p))
					if err != nil {
						return fmt.Errorf("%s:%d: %v", file, it.line, err)
					}
					c.exprs = append(c.exprs, e)
				}
				cur.modifies = append(cur.modifies, c)
			case "callpre":
				// callpre <callee>: <expr>   must hold whenever this function calls <callee>; a0, a1, ... are
				// the actual arguments (receiver first), evaluated with the caller's variables at the call
				i := strings.Index(rest, ":")
				if i < 0 {
					return fmt.Errorf("%s:%d: callpre <callee>: <expr>", file, it.line)
				}
				c, err := mk("callpre", strings.TrimSpace(rest[i+1:]))
				if err != nil {
					return err
				}
				callee := strings.TrimSpace(rest[:i])
				if cur.callPres == nil {
					cur.callPres = map[string][]*Clause{}
				}
				cur.callPres[callee] = append(cur.callPres[callee], c)
			case "callmod":
				// callmod <callee>: <designators>   assumed frame of an uninterpreted callee, stated where it
				// is called (the designators are evaluated in the caller at the call)
				i := strings.Index(rest, ":")
				if i < 0 {
					return fmt.Errorf("%s:%d: callmod <callee>: <designators>", file, it.line)
				}
				c := &Clause{kind: "callmod", text: rest, line: it.line, file: file}
				callee := strings.TrimSpace(rest[:i])
				if lst := strings.TrimSpace(rest[i+1:]); lst != "nothing" {
					for _, p := range splitTop(lst, ',') {
						e, err := parser.ParseExpr(strings.TrimSpace(p))
						if err != nil {
							return fmt.Errorf("%s:%d: %v", file, it.line, err)
						}
						c.exprs = append(c.exprs, e)
					}
				}
				if cur.callMods == nil {
					cur.callMods = map[string]*Clause{}
				}
				cur.callMods[callee] = c
			case "pure":
				cur.hasMod = true
				cur.pure = true
			case "frameonly":
				for _, p := range strings.Fields(rest) {
					cur.frameOnly = append(cur.frameOnly, strings.Trim(p, ","))
				}
			case "puredyn":
				cur.pureDyn = true
			case "nosafety":
				cur.noSafety = true
			case "onrecv", "onsend":
				// onrecv assume e | onrecv gset l := r | onsend requires e | onsend gset l := r
				f := strings.SplitN(rest, " ", 2)
				if len(f) != 2 {
					return fmt.Errorf("%s:%d: %s <assume|requires|gset> ...", file, it.line, kw)
				}
				var c *Clause
				switch f[0] {
				case "assume", "requires":
					cc, err := mk(f[0], strings.TrimSpace(f[1]))
					if err != nil {
						return err
					}
					c = cc
				case "gset":
					i := strings.Index(f[1], ":=")
					if i < 0 {
						return fmt.Errorf("%s:%d: gset lhs := rhs", file, it.line)
					}
					cc, err := mk("gset", strings.TrimSpace(f[1][i+2:]))
					if err != nil {
						return err
					}
					lhs, err := parser.ParseExpr(strings.TrimSpace(f[1][:i]))
					if err != nil {
						return fmt.Errorf("%s:%d: %v", file, it.line, err)
					}
					cc.exprs = []ast.Expr{lhs}
					c = cc
				default:
					return fmt.Errorf("%s:%d: %s <assume|requires|gset> ...", file, it.line, kw)
				}
				if kw == "onrecv" {
					cur.onRecv = append(cur.onRecv, c)
				} else {
					cur.onSend = append(cur.onSend, c)
				}
			case "inline":
				cur.inline = true
			case "trusted":
				cur.trusted = true
			case "noverify":
				cur.noverify = true
			case "fresh":
				cur.fresh = true
			case "props":
				for _, p := range strings.Fields(rest) {
					cur.props = append(cur.props, strings.Trim(p, ","))
				}
			case "opaque":
				for _, p := range strings.Fields(rest) {
					cur.opaque = append(cur.opaque, strings.Trim(p, ","))
				}
			case "inlines":
				for _, p := range strings.Fields(rest) {
					cur.inlines = append(cur.inlines, strings.Trim(p, ","))
				}
			case "split":
				// split <expr> : v1, v2, ...
				i := strings.LastIndex(rest, ":")
				if i < 0 {
					return fmt.Errorf("%s:%d: split expr : v1, v2, ...", file, it.line)
				}
				c, err := mk("split", strings.TrimSpace(rest[:i]))
				if err != nil {
					return err
				}
				for _, v := range splitTop(rest[i+1:], ',') {
					e, err := parser.ParseExpr(strings.TrimSpace(v))
					if err != nil {
						return fmt.Errorf("%s:%d: %v", file, it.line, err)
					}
					c.exprs = append(c.exprs, e)
				}
				cur.splits = append(cur.splits, c)
			case "reveal":
				for _, p := range strings.Fields(rest) {
					cur.reveals = append(cur.reveals, strings.Trim(p, ","))
				}
			case "depth":
				cur.depth, _ = strconv.Atoi(rest)
			case "maxpaths":
				cur.maxPaths, _ = strconv.Atoi(rest)
			case "loop":
				f := strings.SplitN(rest, " ", 3)
				if len(f) < 2 {
					return fmt.Errorf("%s:%d: loop N kind ...", file, it.line)
				}
				n, err := strconv.Atoi(f[0])
				if err != nil {
					return fmt.Errorf("%s:%d: loop ordinal: %v", file, it.line, err)
				}
				lc := cur.loops[n]
				if lc == nil {
					lc = &LoopContract{}
					cur.loops[n] = lc
				}
				arg := ""
				if len(f) == 3 {
					arg = f[2]
				}
				switch f[1] {
				case "invariant":
					c, err := mk("invariant", arg)
					if err != nil {
						return err
					}
					lc.invariants = append(lc.invariants, c)
				case "unroll":
					lc.unroll, _ = strconv.Atoi(arg)
				case "decreases":
					c, err := mk("decreases", arg)
					if err != nil {
						return err
					}
					lc.decreases = c
				case "havoc":
					// loop N havoc: cut with invariant true
					lc.invariants = append(lc.invariants, &Clause{kind: "invariant", text: "true", expr: ast.NewIdent("true"), line: it.line, file: file})
				default:
					return fmt.Errorf("%s:%d: unknown loop clause %s", file, it.line, f[1])
				}
			}
		}
	}
	return nil
}

func indexTopEq(s string) int {
	d := 0
	for i := 0; i < len(s); i++ {
		switch s[i] {
		case '(', '[', '{':
			d++
		case ')', ']', '}':
			d--
		case '=':
			if d == 0 {
				if i+1 < len(s) && s[i+1] == '=' {
					i++
					continue
				}
				if i > 0 && strings.ContainsRune("!<>=", rune(s[i-1])) {
					continue
				}
				return i
			}
		}
	}
	return -1
}

// Macro is a textual abbreviation usable in clause texts: name(args) is replaced by the body
// with parameters substituted (whole identifiers only).
type Macro struct {
	params []string
	body   string
}

var macroRe = regexp.MustCompile(`^(\w+)\(([^)]*)\)\s*=\s*(.*)$`)

func expandMacros(text string, macros map[string]*Macro) string {
	for iter := 0; iter < 3000; iter++ {
		changed := false
		for name, m := range macros {
			re := regexp.MustCompile(`\b` + name + `\(`)
			loc := re.FindStringIndex(text)
			if loc == nil {
				continue
			}
			// find matching paren
			d := 0
			j := loc[1] - 1
			for ; j < len(text); j++ {
				if text[j] == '(' {
					d++
				} else if text[j] == ')' {
					d--
					if d == 0 {
						break
					}
				}
			}
			if j >= len(text) {
				continue
			}
			args := splitTop(text[loc[1]:j], ',')
			if len(m.params) == 0 {
				args = nil
			}
			if len(args) != len(m.params) {
				continue
			}
			body := m.body
			for k, p := range m.params {
				body = regexp.MustCompile(`\b`+p+`\b`).ReplaceAllLiteralString(body, "\x00"+strconv.Itoa(k)+"\x01")
			}
			for k := range m.params {
				body = strings.ReplaceAll(body, "\x00"+strconv.Itoa(k)+"\x01", "("+strings.TrimSpace(args[k])+")")
			}
			text = text[:loc[0]] + "(" + body + ")" + text[j+1:]
			changed = true
		}
		if !changed {
			break
		}
	}
	return text
}
