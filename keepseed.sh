#!/bin/bash
# usage: keepseed.sh <worktree> <seed-id> "<detected-by>" 
wt=$1; id=$2; det=$3
d=/verif/seeded/$id; mkdir -p $d
cp $wt/seed_patch.diff $d/patch.diff
demo=$(python3 -c "import json;print(json.load(open('$wt/seed_meta.json'))['demo_test'])")
cp $wt/$demo $d/demo_test.go
python3 - "$wt" "$d" "$det" "$demo" <<'PY'
import json,sys
wt,d,det,demo=sys.argv[1:5]
m=json.load(open(wt+'/seed_meta.json'))
out={"property":m["property"],"summary":m["summary"],"needs_to_manifest":m["needs_to_manifest"],
 "demo_test_path_in_repo":demo,"demo_run_cmd":m.get("demo_run_cmd"),
 "confirmed_by_me":["demo fails with patch applied","demo passes without the patch","existing tests of the touched package pass with the patch (demo removed)"],
 "agent_commands":m.get("commands_run"),
 "check_result":det}
json.dump(out,open(d+'/meta.json','w'),indent=1)
PY
echo kept $d
